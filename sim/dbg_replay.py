"""python sim/dbg_replay.py <replay.json> <ExceptionClass> : in-process replay printing the traceback of that exception class"""
import sys, json, traceback
sys.path.insert(0, "/verif")
import sim.bootstrap
from sim.hist import HistMachine
from sim.profiles import PROFILES
import sim.machine as M
p = json.load(open(sys.argv[1])); want = sys.argv[2]
cfg = dict(p["cfg"]); cfg["profile"] = PROFILES[cfg["profile_name"]]
def call(self, fn):
    try: return ("ok", fn())
    except (M.Violation, M.Skip): raise
    except Exception as e:
        if type(e).__name__ == want: traceback.print_exc()
        return ("exc", type(e).__name__, e)
M.Machine.call = call
m = HistMachine(cfg)
try: print(m.replay([dict(s) for s in p["steps"]]))
except Exception as e: print("EXC", e)
