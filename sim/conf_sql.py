"""M_conf / sql (C19), workload (i): every operator x every declared signature x every back end
(SQLite, PostgreSQL, SQL Server compiled through real SQLAlchemy dialects; Polars compiled to a
lazy plan), recomputed inside one sampled configuration.

O19.1 outcome is one SELECT statement | NotSupportedError | SubqueryError, never another exception
O19.2 the same table object gives the same text on every call
O19.3 the whole outcome table equals the reference configuration's table (parent)
O19.4 every accepted (operator, signature) has, on every back end incl. Polars, an implementation
      or NotSupportedError
"""

import datetime
import hashlib
import json
import re
import time

import sim.bootstrap  # noqa: F401
import polars as pl
import sqlalchemy as sqa

import pydiverse.common as pc
import pydiverse.transform as pdt
from pydiverse.transform._internal.ops import ops
from pydiverse.transform._internal.ops.op import Ftype, Operator
from pydiverse.transform._internal.ops.ops.markers import Marker
from pydiverse.transform._internal.tree import types as T
from pydiverse.transform._internal.tree.col_expr import ColFn
from sim import seams
from sim.world import World

COLS = {  # column name -> (pdt type, sqa type, polars values)
    "i": (pc.Int64(), sqa.BigInteger, [1, 2, None]),
    "i2": (pc.Int64(), sqa.BigInteger, [3, 1, 2]),
    "f": (pc.Float64(), sqa.Double, [0.5, 1.5, None]),
    "s": (pc.String(), sqa.String, ["a", "b", None]),
    "s2": (pc.String(), sqa.String, ["x", "y", "z"]),
    "b": (pc.Bool(), sqa.Boolean, [True, False, None]),
    "d": (pc.Date(), sqa.Date, [datetime.date(2020, 1, 2), datetime.date(2021, 3, 4), None]),
    "dt": (pc.Datetime(), sqa.DateTime, [datetime.datetime(2020, 1, 2, 3, 4, 5), datetime.datetime(2021, 3, 4), None]),
    "tm": (pc.Time(), sqa.Time, [datetime.time(1, 2, 3), datetime.time(4, 5, 6), None]),
    "du": (pc.Duration(), sqa.Interval, [datetime.timedelta(days=1), datetime.timedelta(hours=2), None]),
    "g": (pc.Int64(), sqa.BigInteger, [1, 1, 2]),
}
LITERALS = {
    "Int": 2, "Float": 1.5, "String": "ab", "Bool": True, "Date": datetime.date(2020, 1, 2),
    "Datetime": datetime.datetime(2020, 1, 2, 3, 4, 5), "Time": datetime.time(1, 2, 3),
    "Duration": datetime.timedelta(days=1), "NullType": None,
}  # fmt: skip
SQL_BACKENDS = ("sqlite", "postgres", "mssql")


def fam(t) -> str:
    b = T.without_const(t)
    if b.is_int():
        return "Int"
    if b.is_float():
        return "Float"
    if isinstance(b, pc.Enum | pc.String):
        return "String"
    if isinstance(b, pc.List):
        return "List"
    return type(b).__name__


FAM_COL = {"Int": ["i", "i2"], "Float": ["f"], "String": ["s", "s2"], "Bool": ["b"], "Date": ["d"], "Datetime": ["dt"], "Time": ["tm"], "Duration": ["du"]}


def make_tables():
    out = {}
    df = pl.DataFrame({k: pl.Series(k, v[2], dtype=v[0].to_polars()) for k, v in COLS.items()})
    out["polars"] = pdt.Table(df, name="T")
    for be in SQL_BACKENDS:
        md = sqa.MetaData()
        tb = sqa.Table("T", md, *[sqa.Column(k, v[1]) for k, v in COLS.items()])
        if be == "sqlite":
            eng = sqa.create_engine("sqlite://")
        else:
            eng = World.dialect_engine(be)
        out[be] = pdt.Table(tb, pdt.SqlAlchemy(eng))
    return out


def operators():
    return {n: getattr(ops, n) for n in sorted(dir(ops)) if isinstance(getattr(ops, n), Operator)}


def instantiate(sig):
    """declared signature -> list of concrete parameter-type lists (type variables instantiated)"""
    types = list(sig.types)
    if sig.is_vararg and types:
        types = types + [types[-1]]
    has_tyvar = any(isinstance(T.without_const(t), T.Tyvar) for t in types)
    if not has_tyvar:
        return [types]
    outs = []
    for inst in (pc.Int(), pc.String(), pc.Bool(), pc.Float(), pc.Date()):
        outs.append([(T.Const(inst) if T.is_const(t) else inst) if isinstance(T.without_const(t), T.Tyvar) else t for t in types])
    return outs


def build_args(tbl, ptypes):
    args = []
    used = {}
    for pt in ptypes:
        f = fam(pt)
        if T.is_const(pt):
            if f not in LITERALS:
                return None
            args.append(LITERALS[f])
        else:
            cols = FAM_COL.get(f)
            if not cols:
                return None
            k = used.get(f, 0)
            used[f] = k + 1
            args.append(tbl[cols[k % len(cols)]])
    return args


def sql_outcome(fn):
    try:
        q = fn()
    except Exception as e:  # noqa: BLE001
        return ("exc", type(e).__name__, e)
    return ("ok", q, None)


def check_sql_text(q):
    if not isinstance(q, str) or not q.lstrip().upper().startswith(("SELECT", "WITH")):
        return "not_select"
    if ";" in re.sub(r"'(?:[^']|'')*'", "''", q):
        return "semicolon"
    return None


def exc_site(exc) -> str:
    import traceback

    site = "?"
    for fr in traceback.extract_tb(exc.__traceback__):
        if "pydiverse/transform" in fr.filename:
            site = f"{fr.filename.rsplit('/', 1)[-1]}:{fr.name}"
    return site


CAST_TARGETS = [pc.Int8(), pc.Int16(), pc.Int32(), pc.Int64(), pc.UInt8(), pc.UInt16(), pc.UInt32(), pc.UInt64(), pc.Float32(), pc.Float64(), pc.String(), pc.Date(), pc.Datetime()]
NULL_LIT_TYPES = [pc.Int64(), pc.Float64(), pc.String(), pc.Bool(), pc.Date(), pc.Datetime()]


def compute_misc(tables, outcomes, viol):
    """typed null literals; non-strict casts of columns, literals and aggregates"""
    n = 0
    cases = []
    for dt in NULL_LIT_TYPES:
        cases.append((f"lit_none|{type(dt).__name__}", "mutate", lambda t, dt=dt: t >> pdt.mutate(z=pdt.lit(None, dt))))
    for tgt in CAST_TARGETS[:10]:
        tn = type(tgt).__name__
        cases.append((f"cast_nonstrict|i->{tn}", "mutate", lambda t, tgt=tgt: t >> pdt.mutate(z=t.i.cast(tgt, strict=False))))
        cases.append((f"cast_nonstrict|lit->{tn}", "mutate", lambda t, tgt=tgt: t >> pdt.mutate(z=pdt.lit(3).cast(tgt, strict=False))))
        cases.append((f"cast_nonstrict|count->{tn}", "summarize", lambda t, tgt=tgt: t >> pdt.group_by(t.g) >> pdt.summarize(z=t.i.count().cast(tgt, strict=False))))
    for label, vname, mk in cases:
        for be, tbl in tables.items():
            key = f"misc|{label}|{be}|{vname}"
            try:
                q = mk(tbl)
            except (T.DataTypeError, TypeError) as e:
                if isinstance(e, T.DataTypeError):
                    break
                outcomes[key] = "verb!TypeError"
                viol.append(dict(oracle="O19.1", op="misc", sig=label, what=f"{vname} with {label} on {be} raised TypeError: {str(e)[:120]}", features=dict(kind="verb", cls="TypeError", be=be)))
                continue
            except Exception as e:  # noqa: BLE001
                outcomes[key] = "verb!" + type(e).__name__
                if type(e).__name__ not in ("SubqueryError", "NotSupportedError"):
                    viol.append(dict(oracle="O19.1", op="misc", sig=label, what=f"{vname} with {label} on {be} raised {type(e).__name__}: {str(e)[:120]}", features=dict(kind="verb", cls=type(e).__name__, be=be)))
                continue
            n += 1
            if be == "polars":
                r = sql_outcome(lambda q=q: q >> pdt.export(pdt.Polars(lazy=True)))
                outcomes[key] = "plan" if r[0] == "ok" else "!" + r[1]
                if r[0] != "ok" and r[1] != "NotSupportedError" and not (type(r[2]).__module__ or "").startswith("polars"):
                    viol.append(dict(oracle="O19.4", op="misc", sig=label, what=f"polars: {label} raised {r[1]}: {str(r[2])[:120]}", features=dict(kind="impl", cls=r[1], be=be, verb=vname, site=exc_site(r[2]))))
                continue
            r = sql_outcome(lambda q=q: q >> pdt.build_query())
            if r[0] != "ok":
                outcomes[key] = "!" + r[1]
                if r[1] not in ("NotSupportedError", "SubqueryError"):
                    viol.append(dict(oracle="O19.4", op="misc", sig=label, what=f"{be}: build_query with {label} raised {r[1]}: {str(r[2])[:140]}", features=dict(kind="impl", cls=r[1], be=be, verb=vname, site=exc_site(r[2]))))
                continue
            outcomes[key] = hashlib.sha1(r[1].encode()).hexdigest()[:12]
    return n


def compute_casts(tables, outcomes, viol):
    """explicit casts (not operators): every source column x every target the type checker accepts"""
    n = 0
    for cname in ("i", "f", "s", "b", "d", "dt"):
        for tgt in CAST_TARGETS:
            for be, tbl in tables.items():
                key = f"cast|{cname}->{type(tgt).__name__}|{be}|mutate"
                try:
                    q = tbl >> pdt.mutate(z=tbl[cname].cast(tgt))
                except T.DataTypeError:
                    break  # not a valid cast (same verdict on every back end)
                except Exception as e:  # noqa: BLE001
                    outcomes[key] = "verb!" + type(e).__name__
                    continue
                n += 1
                if be == "polars":
                    r = sql_outcome(lambda q=q: q >> pdt.export(pdt.Polars(lazy=True)))
                    outcomes[key] = "plan" if r[0] == "ok" else "!" + r[1]
                    if r[0] != "ok" and r[1] != "NotSupportedError" and not (type(r[2]).__module__ or "").startswith("polars"):
                        viol.append(dict(oracle="O19.4", op="cast", sig=key, what=f"polars: cast {cname}->{tgt} raised {r[1]}: {str(r[2])[:120]}", features=dict(kind="impl", cls=r[1], be=be, verb="mutate", site=exc_site(r[2]))))
                    continue
                r = sql_outcome(lambda q=q: q >> pdt.build_query())
                if r[0] != "ok":
                    outcomes[key] = "!" + r[1]
                    if r[1] not in ("NotSupportedError", "SubqueryError"):
                        viol.append(dict(oracle="O19.4", op="cast", sig=key, what=f"{be}: build_query with cast {cname}->{tgt} raised {r[1]}: {str(r[2])[:140]}", features=dict(kind="impl", cls=r[1], be=be, verb="mutate", site=exc_site(r[2]))))
                    continue
                outcomes[key] = hashlib.sha1(r[1].encode()).hexdigest()[:12]
    return n


def compute(only_ops=None, order=None):
    """-> (outcomes {key: outcome}, violations [...])"""
    tables = make_tables()
    if order:
        # compile on the back ends in this configuration's first-use order (state shared between
        # dialects would make the text depend on it)
        tables = {be: tables[be] for be in order if be in tables}
    outcomes = {}
    viol = []
    n_cases = 0
    for name, op in operators().items():
        if only_ops and name not in only_ops:
            continue
        for si, sig in enumerate(op.signatures):
            for ptypes in instantiate(sig):
                sigkey = ",".join(("const " if T.is_const(t) else "") + fam(t) for t in ptypes)
                for be, tbl in tables.items():
                    args = build_args(tbl, ptypes)
                    if args is None:
                        continue
                    kw = {}
                    ck = {c.name for c in op.context_kwargs}
                    if "arrange" in ck:
                        kw["arrange"] = [tbl.i2]
                    try:
                        if isinstance(op, Marker):
                            expr = ColFn(op, *args)
                        else:
                            expr = ColFn(op, *args, **kw)
                    except Exception as e:  # noqa: BLE001
                        viol.append(dict(oracle="O19.4", op=name, sig=sigkey, what=f"declared signature `{name}`({sigkey}) is not accepted: {type(e).__name__}: {str(e)[:120]}", features=dict(kind="declared_not_accepted", cls=type(e).__name__)))
                        break
                    verbs = []
                    if isinstance(op, Marker):
                        verbs = [("arrange", lambda t, e=expr: t >> pdt.arrange(e))]
                    elif op.ftype == Ftype.ELEMENT_WISE:
                        verbs = [("mutate", lambda t, e=expr: t >> pdt.mutate(z=e))]
                        # the operator's result in other syntactic roles: ordering key, negated
                        # predicate, argument of an aggregate / window function (computed argument)
                        try:
                            rt = T.without_const(expr.dtype())
                        except Exception:  # noqa: BLE001
                            rt = None
                        if rt is not None and not isinstance(rt, pc.List):
                            verbs.append(("arrange", lambda t, e=expr: t >> pdt.arrange(e)))
                        if isinstance(rt, pc.Bool):
                            verbs.append(("filter_not", lambda t, e=expr: t >> pdt.filter(~e)))
                        if rt is not None and (rt.is_int() or rt.is_float()):
                            verbs.append(("sum_of", lambda t, e=expr: t >> pdt.group_by(t.g) >> pdt.summarize(z=e.sum())))
                            verbs.append(("shift_of", lambda t, e=expr: t >> pdt.mutate(z=e.shift(1, arrange=t.i2))))
                    elif op.ftype == Ftype.AGGREGATE:
                        verbs = [
                            ("summarize", lambda t, e=expr: t >> pdt.group_by(t.g) >> pdt.summarize(z=e)),
                            ("mutate", lambda t, e=expr: t >> pdt.mutate(z=e)),
                        ]
                    else:
                        verbs = [("mutate", lambda t, e=expr: t >> pdt.mutate(z=e)), ("grouped", lambda t, e=expr: t >> pdt.group_by(t.g) >> pdt.mutate(z=e))]
                    for vname, mk in verbs:
                        key = f"{name}|{sigkey}|{be}|{vname}"
                        n_cases += 1
                        try:
                            q = mk(tbl)
                        except Exception as e:  # noqa: BLE001
                            outcomes[key] = "verb!" + type(e).__name__
                            if type(e).__name__ not in ("SubqueryError", "NotSupportedError", "FunctionTypeError", "DataTypeError"):
                                viol.append(dict(oracle="O19.1", op=name, sig=sigkey, what=f"{vname} with `{name}`({sigkey}) on {be} raised {type(e).__name__}: {str(e)[:120]}", features=dict(kind="verb", cls=type(e).__name__, be=be)))
                            continue
                        if be == "polars":
                            r = sql_outcome(lambda q=q: q >> pdt.export(pdt.Polars(lazy=True)))
                            if r[0] == "ok":
                                outcomes[key] = "plan"
                            else:
                                cls = r[1]
                                outcomes[key] = "!" + cls
                                mod = type(r[2]).__module__ or ""
                                if cls != "NotSupportedError" and not mod.startswith("polars"):
                                    viol.append(dict(oracle="O19.4", op=name, sig=sigkey, what=f"polars: `{name}`({sigkey}) in {vname} has neither an implementation nor NotSupportedError: {cls}: {str(r[2])[:140]}", features=dict(kind="impl", cls=cls, be=be, verb=vname, site=exc_site(r[2]))))
                            continue
                        r = sql_outcome(lambda q=q: q >> pdt.build_query())
                        if r[0] != "ok":
                            cls = r[1]
                            outcomes[key] = "!" + cls
                            if cls not in ("NotSupportedError", "SubqueryError"):
                                viol.append(dict(oracle="O19.4", op=name, sig=sigkey, what=f"{be}: build_query with `{name}`({sigkey}) in {vname} raised {cls}: {str(r[2])[:140]}", features=dict(kind="impl", cls=cls, be=be, verb=vname, site=exc_site(r[2]))))
                            continue
                        q1 = r[1]
                        bad = check_sql_text(q1)
                        if bad:
                            viol.append(dict(oracle="O19.1", op=name, sig=sigkey, what=f"{be}: `{name}`({sigkey}) compiled to {str(q1)[:60]!r} ({bad})", features=dict(kind=bad, be=be)))
                        r2 = sql_outcome(lambda q=q: q >> pdt.build_query())
                        if r2[0] != "ok" or r2[1] != q1:
                            viol.append(dict(oracle="O19.2", op=name, sig=sigkey, what=f"{be}: two build_query calls for `{name}`({sigkey}) differ", features=dict(kind="repeat", be=be)))
                        outcomes[key] = hashlib.sha1(q1.encode()).hexdigest()[:12]
    if not only_ops or "cast" in only_ops:
        n_cases += compute_casts(tables, outcomes, viol)
    if not only_ops or "misc" in only_ops:
        n_cases += compute_misc(tables, outcomes, viol)
    return outcomes, viol, n_cases


def digest_by_op(outcomes):
    by = {}
    for k in sorted(outcomes):
        by.setdefault(k.split("|", 1)[0], hashlib.sha1()).update(f"{k}={outcomes[k]};".encode())
    return {k: h.hexdigest()[:16] for k, h in by.items()}


def first_use(order):
    """touch the dialects in the given order (import of the dialect modules, first compile)"""
    w = None
    for be in order:
        if be == "polars":
            t = pdt.Table({"a": [1]})
            t >> pdt.mutate(b=t.a + 1) >> pdt.export(pdt.Polars())
        elif be == "sqlite":
            eng = sqa.create_engine("sqlite://")
            tb = sqa.Table("W", sqa.MetaData(), sqa.Column("a", sqa.BigInteger))
            t = pdt.Table(tb, pdt.SqlAlchemy(eng))
            t >> pdt.mutate(b=t.a + 1) >> pdt.build_query()
        else:
            tb = sqa.Table("W", sqa.MetaData(), sqa.Column("a", sqa.BigInteger))
            t = pdt.Table(tb, pdt.SqlAlchemy(World.dialect_engine(be)))
            t >> pdt.mutate(b=t.a + 1) >> pdt.build_query()
    return w


def worker(job, out):
    t0 = time.time()
    first_use(job.get("first_use", ["polars", "sqlite", "postgres", "mssql"]))
    seams.record_canonical_order()
    for perm in job["perms"]:
        n_perm = seams.permute_declaration_order(perm)
        t1 = time.time()
        outcomes, viol, n_cases = compute(job.get("only_ops"), order=job.get("first_use"))
        dig = digest_by_op(outcomes)
        cnt = {}
        for v in outcomes.values():
            k = v if v.startswith(("!", "verb!")) or v == "plan" else "sql"
            cnt[k] = cnt.get(k, 0) + 1
        rec = dict(type="conf", perm=perm, nodes_permuted=n_perm, digests=dig, n_cases=n_cases, outcome_kinds=cnt, violations=viol[:300], n_violations=len(viol), wall=time.time() - t1, first_use=job.get("first_use"))
        if job.get("dump_ops"):
            rec["rows"] = {k: v for k, v in outcomes.items() if k.split("|", 1)[0] in job["dump_ops"]}
        if job.get("samples"):
            ks = sorted(outcomes)
            rec["samples"] = {k: outcomes[k] for k in ks[:: max(1, len(ks) // 8)][:8]}
        out.write(json.dumps(rec) + "\n")
        out.flush()
    seams.permute_declaration_order(None)
    out.write(json.dumps(dict(type="summary", wall=time.time() - t0)) + "\n")
