"""Determinism self-tests of the simulator (DESIGN.md section 2.5).

  same seed twice / fresh interpreter : the same seeds in two fresh interpreters with the same
                                        environment vector -> identical run digests
  position independence               : second batch runs the seeds in reverse order
  ASLR                                : third batch under `setarch -R` (address randomisation off)
  cross environment                   : fourth batch under another PYTHONHASHSEED / dtype-hash
                                        salt / thread count (on a tree where the properties hold
                                        the event logs are identical: this is oracle O6.5 / O19.3)
usage: check selftest [n_seeds_per_profile]
"""

import json
import os
import shutil
import subprocess
import sys
import time

from sim import runner as R

PROFILES = ["metadata", "refs", "join", "reroot", "sharing", "rejects", "subq", "sql"]


def spawn(job, env_vec, tag, prefix=()):
    os.makedirs(os.path.join(R.OUT, "jobs"), exist_ok=True)
    jf = os.path.join(R.OUT, "jobs", f"{tag}.job.json")
    of = os.path.join(R.OUT, "jobs", f"{tag}.out.jsonl")
    ef = os.path.join(R.OUT, "jobs", f"{tag}.err")
    json.dump(job, open(jf, "w"))
    env = dict(os.environ)
    env.update(env_vec)
    env["PYTHONDONTWRITEBYTECODE"] = "1"
    p = subprocess.Popen([*prefix, R.PY, os.path.join(R.ROOT, "sim", "worker.py"), jf, of], env=env, stdout=subprocess.DEVNULL, stderr=open(ef, "w"), cwd=R.ROOT)
    return dict(proc=p, out=of, err=ef, job=job, env=env_vec, tag=tag, t0=time.time())


def main(args) -> int:
    n = int(args[0]) if args else 40
    t0 = time.time()
    env0 = R.group_env(0, 0)
    env1 = dict(PYTHONHASHSEED="4242", POLARS_MAX_THREADS="4", PDT_VERIF_DTYPE_SALT="77", PDT_VERIF_BLOCK_DRIVERS="1")
    setarch = shutil.which("setarch")
    procs = []
    for prof in PROFILES:
        seeds = [R.h("selftest", prof, i) for i in range(n)]
        base = dict(kind="hist", profile=prof, tier="quick", budget_s=600, hard_timeout=900, max_minimise=0)
        half = n // 2
        pops = [("clean", seeds[:half]), ("fault", seeds[half:])]
        if prof == "sharing":
            pops.append(("interrupt", [R.h("selftest-int", i) for i in range(max(4, n // 4))]))
        for pop, ss in pops:
            procs.append(("A", prof, pop, spawn(dict(base, seeds=ss, population=pop), env0, f"st-A-{prof}-{pop}")))
            procs.append(("B", prof, pop, spawn(dict(base, seeds=list(reversed(ss)), population=pop), env0, f"st-B-{prof}-{pop}")))
            if setarch:
                procs.append(("C", prof, pop, spawn(dict(base, seeds=ss, population=pop), env0, f"st-C-{prof}-{pop}", prefix=(setarch, os.uname().machine, "-R"))))
            procs.append(("D", prof, pop, spawn(dict(base, seeds=ss, population=pop), env1, f"st-D-{prof}-{pop}")))
    errs = R.wait_all([p[3] for p in procs], 1200)
    digests = {}
    for batch, prof, pop, pr in procs:
        for rec in R.read_jsonl(pr["out"]):
            if rec["type"] == "run":
                digests.setdefault((prof, pop, rec["seed"]), {})[batch] = (rec["digest"], bool(rec.get("violation")), rec.get("harness_error"))
    res = dict(seeds=len(digests), same_env_mismatch=[], aslr_mismatch=[], cross_env_mismatch=[], harness_errors=[], missing=[])
    for key, d in sorted(digests.items()):
        if any(v[2] for v in d.values()):
            res["harness_errors"].append(key)
        if "A" not in d or "B" not in d or "D" not in d:
            res["missing"].append(key)
            continue
        if d["A"][0] != d["B"][0]:
            res["same_env_mismatch"].append(key)
        if "C" in d and d["A"][0] != d["C"][0]:
            res["aslr_mismatch"].append(key)
        if d["A"][0] != d["D"][0]:
            res["cross_env_mismatch"].append(key)
    summary = dict(
        runs=sum(len(d) for d in digests.values()),
        seeds=res["seeds"],
        profiles=PROFILES,
        batches=dict(A="reference env, seed order", B="same env, fresh interpreter, reversed order", C="setarch -R (no ASLR)" if setarch else "unavailable", D=f"other environment {env1}"),
        same_env_mismatches=len(res["same_env_mismatch"]),
        aslr_mismatches=len(res["aslr_mismatch"]),
        cross_env_mismatches=len(res["cross_env_mismatch"]),
        harness_errors=len(res["harness_errors"]) + len(errs),
        missing=len(res["missing"]),
        wall_s=round(time.time() - t0, 1),
        details={k: [list(map(str, x)) for x in v[:10]] for k, v in res.items() if isinstance(v, list)},
    )
    os.makedirs(R.OUT, exist_ok=True)
    json.dump(summary, open(os.path.join(R.OUT, "selftest.json"), "w"), indent=1)
    print(json.dumps({k: v for k, v in summary.items() if k != "details"}, indent=1))
    for k, v in summary["details"].items():
        if v:
            print(k, v[:5])
    bad = summary["same_env_mismatches"] or summary["aslr_mismatches"] or summary["harness_errors"] or summary["missing"]
    if bad:
        print("HARNESS-ERROR determinism self-test failed")
        return 2
    if summary["cross_env_mismatches"]:
        print("note: event logs differ across environments - that is an oracle (O6.5/O19.3) matter, see the checks")
    return 0
