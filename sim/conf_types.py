"""M_conf / types (C13): the overload-resolution outcome table, recomputed inside one sampled
configuration (PYTHONHASHSEED, dtype-hash salt = interpreter level; declaration-order
permutation of every signature trie and of IMPLICIT_CONVS = in-process).

O13.1 totality           outcome is a return type or a rejection, never another exception
O13.2 order independence the whole table equals the reference configuration's table (parent)
O13.3 uniformity         sized int / float / decimal accepted wherever the generic type is,
                         result stays in the same family
O13.4 const              const accepted wherever a column is (same base result); parameters
                         declared const reject columns; result const iff element-wise and all
                         arguments const
O13.5 route / history    one deferred expression object per operator (C.a0, C.a1, literals), reused
                         in `mutate` over tables of every representable column-type tuple in a
                         seeded order, resolves like the eager route does
"""

import hashlib
import itertools
import json
import time
import uuid

import sim.bootstrap  # noqa: F401
import pydiverse.common as pc

from pydiverse.transform._internal.ops import ops
from pydiverse.transform._internal.ops.op import Ftype, Operator
from pydiverse.transform._internal.tree import types as T
from pydiverse.transform._internal.tree.col_expr import Cast, Col, ColFn
from sim import seams


def universe():
    base = [
        pc.Int8(), pc.Int16(), pc.Int32(), pc.Int64(), pc.UInt8(), pc.UInt16(), pc.UInt32(), pc.UInt64(),
        pc.Float32(), pc.Float64(), pc.Decimal(), pc.Decimal(10, 2), pc.Decimal(38, 1), pc.Decimal(20, 15), pc.Int(), pc.Float(),
        pc.String(), pc.String(10), pc.Enum("a", "b"), pc.Bool(), pc.Date(), pc.Datetime(), pc.Time(),
        pc.Duration(), pc.NullType(), pc.List(pc.Int64()),
    ]  # fmt: skip
    return base + [T.Const(t) for t in base]


def tname(t) -> str:
    if t is None:
        return "None"
    if isinstance(t, T.Const):
        return "const " + tname(t.base)
    if isinstance(t, pc.Decimal):
        return f"Decimal({t.precision}.{t.scale})"
    if isinstance(t, pc.Enum):
        return "Enum"
    if isinstance(t, pc.String):
        return f"String({t.max_length})"
    if isinstance(t, pc.List):
        return f"List[{tname(t.inner)}]"
    return type(t).__name__


INT_FAM = {"Int", "Int8", "Int16", "Int32", "Int64", "UInt8", "UInt16", "UInt32", "UInt64"}
FLOAT_FAM = {"Float", "Float32", "Float64"}


def family(name: str) -> str:
    n = name.removeprefix("const ")
    if n.startswith("List[") and n.endswith("]"):
        return "List[" + family(n[5:-1]) + "]"
    if n in INT_FAM:
        return "int"
    if n in FLOAT_FAM or n.startswith("Decimal"):
        return "float"
    return n


def operators():
    return {n: getattr(ops, n) for n in sorted(dir(ops)) if isinstance(getattr(ops, n), Operator)}


def arities(op: Operator):
    out = set()
    for s in op.signatures:
        n = len(s.types)
        out.add(n)
        if s.is_vararg:
            out.add(n + 1)
    return sorted(a for a in out if a <= 3)


def tuples_for(op: Operator, U, arity: int):
    """argument-type tuples: all of U for the first two positions; later positions restricted to
    the types the operator declares there (plain and const) plus NullType"""
    if arity == 0:
        return [()]
    if arity <= 2:
        return list(itertools.product(U, repeat=arity))
    later = []
    for pos in range(2, arity):
        decl = []
        for s in op.signatures:
            if pos < len(s.types):
                decl.append(s.types[pos])
            elif s.is_vararg and s.types:
                decl.append(s.types[-1])
        cand = []
        for d in decl:
            b = T.without_const(d)
            if isinstance(b, T.Tyvar):
                cand += [pc.Int64(), pc.String(), pc.Bool()]
            else:
                cand.append(b)
        cand.append(pc.NullType())
        seen, lst = set(), []
        for c in cand:
            for v in (c, T.Const(c)):
                k = tname(v)
                if k not in seen:
                    seen.add(k)
                    lst.append(v)
        later.append(lst)
    first = [pc.Int64(), pc.Float64(), pc.String(), pc.Bool(), pc.Date(), pc.Datetime(), pc.NullType(), pc.Int(), pc.Decimal(), pc.Duration(), pc.List(pc.Int64())]
    first = first + [T.Const(t) for t in first]
    return [a + b for a in itertools.product(first, repeat=2) for b in itertools.product(*later)]


_DUMMY_UUID = uuid.UUID(int=1)


def outcome(op: Operator, sig) -> str:
    """'= <type>' | 'reject' | '!<ExceptionClass>'   (resolution only)"""
    try:
        r = op.return_type(list(sig))
    except T.DataTypeError:
        return "reject"
    except Exception as e:  # noqa: BLE001
        return "!" + type(e).__name__
    return "reject" if r is None else "= " + tname(r)


def colfn_outcome(op: Operator, sig) -> str:
    """the same through ColFn(...) as the user reaches it: adds the const rule and DataTypeError"""
    args = [Col("c", None, _DUMMY_UUID, t, Ftype.ELEMENT_WISE) for t in sig]
    try:
        e = ColFn(op, *args)
        d = e.dtype()
    except T.DataTypeError:
        return "reject"
    except Exception as e:  # noqa: BLE001
        return "!" + type(e).__name__
    return "= " + tname(d)


def lca_outcome(ts) -> str:
    try:
        return "= " + tname(T.lca_type(list(ts)))
    except T.DataTypeError:
        return "reject"
    except Exception as e:  # noqa: BLE001
        return "!" + type(e).__name__


def cast_outcome(src, tgt) -> str:
    try:
        c = Cast(Col("c", None, _DUMMY_UUID, src, Ftype.ELEMENT_WISE), tgt)
        d = c.dtype()
    except T.DataTypeError:
        return "reject"
    except Exception as e:  # noqa: BLE001
        return "!" + type(e).__name__
    return "= " + tname(d)


def compute_table(only_ops=None, with_colfn=True):
    """-> {opname: {sigkey: (resolution outcome, colfn outcome)}}"""
    U = universe()
    table = {}
    for name, op in operators().items():
        if only_ops and name not in only_ops:
            continue
        rows = {}
        for ar in arities(op):
            for sig in tuples_for(op, U, ar):
                key = ",".join(tname(t) for t in sig)
                o1 = outcome(op, sig)
                o2 = colfn_outcome(op, sig) if (with_colfn and ar >= 1) else ""
                rows[key] = (o1, o2)
        table[name] = rows
    if not only_ops or "cast" in only_ops:
        # explicit casts: acceptance per (source type, target type); sources plain and const
        rows = {}
        targets = [t for t in U if not isinstance(t, T.Const) and type(t) not in (pc.Int, pc.Float, pc.NullType)]
        for src in U:
            for tgt in targets:
                rows[f"{tname(src)},{tname(tgt)}"] = (cast_outcome(src, tgt), "")
        table["cast"] = rows
    if not only_ops or "lca_type" in only_ops:
        plain = [t for t in U if not isinstance(t, T.Const)]
        rows = {}
        for ts in itertools.chain(itertools.product(plain, repeat=2), itertools.product(plain[::3], repeat=3)):
            rows[",".join(tname(t) for t in ts)] = (lca_outcome(ts), "")
        table["lca_type"] = rows
    return table


def digest_table(table):
    out = {}
    for name, rows in table.items():
        h = hashlib.sha1()
        for k in sorted(rows):
            h.update(f"{k}|{rows[k][0]}|{rows[k][1]};".encode())
        out[name] = h.hexdigest()[:16]
    return out


# ------------------------------------------------------------------------------------------
# relations over the table itself (no second implementation of overload resolution)
# ------------------------------------------------------------------------------------------
SIZED_INT = ["Int8", "Int16", "Int32", "Int64", "UInt8", "UInt16", "UInt32", "UInt64"]



def check_relations(table):
    """-> list of violation dicts (oracle, op, sig, what, features)"""
    ops_ = operators()
    out = []
    dec_name = tname(pc.Decimal())
    sized_float = ["Float32", "Float64", dec_name, "Decimal(10.2)", "Decimal(38.1)", "Decimal(20.15)"]
    for name, rows in table.items():
        op = ops_.get(name)
        for key, (o1, o2) in rows.items():
            # O13.1 totality
            for which, o in (("resolution", o1), ("ColFn", o2)):
                if o.startswith("!"):
                    out.append(dict(oracle="O13.1", op=name, sig=key, what=f"{which} of `{name}`({key}) raised {o[1:]}", features=dict(cls=o[1:], has_null="NullType" in key, which=which)))
                elif "Tyvar" in o:
                    out.append(dict(oracle="O13.1", op=name, sig=key, what=f"{which} of `{name}`({key}) gives {o[2:]}: the return type still contains a type variable", features=dict(kind="unbound_tyvar", which=which)))
            if not o1.startswith("= ") or (op is None and name != "cast"):
                continue
            parts = key.split(",") if key else []
            res_fam = family(o1[2:])
            # O13.3 uniformity
            for i, p in enumerate(parts):
                if name == "cast" and i > 0:
                    continue  # the second part is the target type of the cast, not an argument
                const = p.startswith("const ")
                b = p.removeprefix("const ")
                subs = SIZED_INT if b == "Int" else sized_float if b == "Float" else None
                if subs is None:
                    continue
                for sname in subs:
                    k2 = ",".join(parts[:i] + [("const " if const else "") + sname] + parts[i + 1 :])
                    r2 = rows.get(k2)
                    if r2 is None:
                        continue
                    if not r2[0].startswith("= "):
                        out.append(dict(oracle="O13.3", op=name, sig=k2, what=f"`{name}`({key}) is accepted but ({k2}) is {r2[0]}", features=dict(kind="rejected", generic=b)))
                    elif name != "cast" and family(r2[0][2:]) != res_fam and not (res_fam in ("int", "float") and family(r2[0][2:]) in ("int", "float") and res_fam == family(r2[0][2:])):
                        out.append(dict(oracle="O13.3", op=name, sig=k2, what=f"`{name}`({key}) -> {o1[2:]} but ({k2}) -> {r2[0][2:]}: different family", features=dict(kind="family", generic=b)))
            # O13.4 const accepted wherever a column is, same base result
            if parts and not any(p.startswith("const ") for p in parts):
                variants = [[("const " + p) if j == i else p for j, p in enumerate(parts)] for i in range(len(parts))]
                variants.append(["const " + p for p in parts])
                if name == "cast":
                    variants = [["const " + parts[0], parts[1]]]
                for v in variants:
                    k2 = ",".join(v)
                    r2 = rows.get(k2)
                    if r2 is None:
                        continue
                    if not r2[0].startswith("= "):
                        out.append(dict(oracle="O13.4", op=name, sig=k2, what=f"`{name}`({key}) is accepted but with const arguments ({k2}) is {r2[0]}", features=dict(kind="const_rejected")))
                    elif r2[0][2:].removeprefix("const ") != o1[2:].removeprefix("const "):
                        out.append(dict(oracle="O13.4", op=name, sig=k2, what=f"`{name}`({key}) -> {o1[2:]} but ({k2}) -> {r2[0][2:]}", features=dict(kind="const_result")))
            # result const iff element-wise and all arguments const (ColFn path)
            if o2.startswith("= ") and parts:
                all_const = all(p.startswith("const ") for p in parts)
                want_const = all_const and op.ftype == Ftype.ELEMENT_WISE
                if o2[2:].startswith("const ") != want_const:
                    out.append(dict(oracle="O13.4", op=name, sig=key, what=f"ColFn `{name}`({key}) -> {o2[2:]}: const result expected {want_const}", features=dict(kind="const_propagation")))
        # parameters declared const reject column arguments
        if op is not None:
            for s in op.signatures:
                for i, pt in enumerate(s.types):
                    if not T.is_const(pt):
                        continue
                    # position i is const in EVERY signature of that arity?
                    same_ar = [q for q in op.signatures if len(q.types) == len(s.types) or q.is_vararg]
                    if not all(i < len(q.types) and T.is_const(q.types[i]) for q in same_ar if len(q.types) > i):
                        continue
                    for key, (o1, _) in rows.items():
                        parts = key.split(",") if key else []
                        if len(parts) == len(s.types) and o1.startswith("= ") and not parts[i].startswith("const "):
                            out.append(dict(oracle="O13.4", op=name, sig=key, what=f"`{name}` declares parameter {i} const but accepts the column tuple ({key})", features=dict(kind="const_param_accepts_column")))
    return out


# ------------------------------------------------------------------------------------------
# O13.5 route agreement and history independence: the same type tuples resolved the way a user
# reaches them with deferred columns - ONE expression object per operator, built from `C.a0`,
# `C.a1`, applied with `mutate` to tables whose columns have the tuple's types, in a seeded
# order - give the outcome of the eager route (table column 2), whatever was resolved before
# ------------------------------------------------------------------------------------------
_LITS = {"const Int64": 1, "const Float64": 1.5, "const String(None)": "a", "const Bool": True}


def deferred_route_check(table, perm: int):
    import random

    import polars as pl

    import pydiverse.transform as pdt
    from pydiverse.transform import C

    plain = []
    for t in universe():
        if isinstance(t, T.Const):
            continue
        try:
            tb = pdt.Table(pl.DataFrame(schema={"a0": t.to_polars()}), name="T")
            if tname(tb.a0.dtype()) == tname(t):
                plain.append(t)
        except Exception:  # noqa: BLE001
            continue
    tables = {}

    def tab(sig):
        k = tuple(tname(t) for t in sig)
        if k not in tables:
            tables[k] = pdt.Table(pl.DataFrame(schema={f"a{i}": t.to_polars() for i, t in enumerate(sig)}), name="T")
        return tables[k]

    cases = []
    for name, op in operators().items():
        if op.ftype == Ftype.WINDOW or name not in table or name in ("ascending", "descending", "nulls_first", "nulls_last"):
            continue  # (ordering markers are only legal inside `arrange`: C14, not a typing question)
        ars = arities(op)
        if 1 in ars:
            e = ColFn(op, C.a0)
            cases += [(name, e, (t,), ",".join([tname(t)])) for t in plain]
        if 2 in ars:
            e = ColFn(op, C.a0, C.a1)
            cases += [(name, e, (a, b), f"{tname(a)},{tname(b)}") for a in plain for b in plain]
            for lk, lv in _LITS.items():
                try:
                    el = ColFn(op, C.a0, lv)
                except Exception:  # noqa: BLE001
                    continue
                cases += [(name, el, (a,), f"{tname(a)},{lk}") for a in plain]
    random.Random(f"deferred:{perm}").shuffle(cases)
    out = []
    n = 0
    for name, e, sig, key in cases:
        want = table[name].get(key)
        if want is None or not want[1]:
            continue
        n += 1
        try:
            r = tab(sig) >> pdt.mutate(z__=e)
            got = "= " + tname(r.z__.dtype())
        except T.DataTypeError:
            got = "reject"
        except Exception as ex:  # noqa: BLE001
            got = "!" + type(ex).__name__
        if got != want[1]:
            out.append(
                dict(
                    oracle="O13.5",
                    op=name,
                    sig=key,
                    what=f"`{name}`({key}) through a reused deferred expression (C.a0, ...) in `mutate` gives {got}, the eager route gives {want[1]}",
                    features=dict(kind="route", eager=want[1].split(" ")[0], deferred=got.split(" ")[0]),
                )
            )
    return out, n


def worker(job, out):
    """job: perms = list of permutation seeds (0 = canonical). Writes one record per perm."""
    t0 = time.time()
    seams.record_canonical_order()
    for perm in job["perms"]:
        n_perm = seams.permute_declaration_order(perm)
        t1 = time.time()
        table = compute_table(only_ops=job.get("only_ops"))
        dig = digest_table(table)
        viol = check_relations(table)
        n_def = 0
        if not job.get("only_ops") or job.get("deferred"):
            dv, n_def = deferred_route_check(table, perm)
            viol += dv
        n_entries = sum(len(r) for r in table.values())
        n_acc = sum(1 for r in table.values() for v in r.values() if v[0].startswith("= "))
        rec = dict(type="conf", perm=perm, nodes_permuted=n_perm, digests=dig, n_entries=n_entries, n_accepted=n_acc, n_deferred=n_def, violations=viol[:400], n_violations=len(viol), wall=time.time() - t1)
        if job.get("dump_ops"):
            rec["rows"] = {k: table[k] for k in job["dump_ops"] if k in table}
        if job.get("samples"):
            smp = {}
            for k in ("add", "min", "str_slice", "lca_type"):
                if k in table:
                    smp[k] = dict(list(table[k].items())[:: max(1, len(table[k]) // 6)][:6])
            rec["samples"] = smp
        out.write(json.dumps(rec) + "\n")
        out.flush()
    seams.permute_declaration_order(None)
    out.write(json.dumps(dict(type="summary", wall=time.time() - t0)) + "\n")
