"""Profiles of the history machine: op mix, enabled oracle families, run configuration."""

import random

BASE_W = dict(
    src=2, ref=6, select=4, drop=2, rename=4, mutate=6, mutate_w=1, filter=3, filter_empty=0, arrange=2,
    slice_head=1, group_by=2, ungroup=1, summarize=2, join=3, union=1, alias=2, collect=1,
    clone=0, recompute=0, transfer=0, expr=0, collide_setup=0, selfjoin=0, hide_ref=0, touch_hidden_computed=0, hidden_computed_scenario=0, disjoint_join_scenario=0, overwrite_chain_scenario=0, pipe=0, apply_pipe=0, observe=0, collect_lazy=0, cq_probe=0, join_chain_scenario=0, hidden_const_join_scenario=0, agg_selfjoin_scenario=0, hidden_group_reject_scenario=0, const_alias_selfjoin_scenario=0,
    uuid_regime=1, gc=0, arm_engine=0, reject=0,
)  # fmt: skip

EW = dict(ref=3, tag=5, add=1, lit=1, case=1)
WIN = dict(agg=4, shift=3, rown=2, wcase=1)

ALL_SUBJECTS = (
    "select", "drop", "rename", "mutate", "filter", "arrange", "slice_head", "group_by", "ungroup",
    "summarize", "alias", "join", "union", "collect", "clone", "recompute", "transfer", "apply_pipe",
)  # fmt: skip


def _w(**kw):
    w = dict(BASE_W)
    w.update(kw)
    return w


PROFILES = {
    "metadata": dict(
        property="C11",
        oracles=["O11"],
        weights=_w(select=7, rename=6, mutate=8, summarize=4, join=5, collide_setup=3, union=2, alias=3, collect=2, recompute=2, ref=2, mutate_w=1, transfer=1),
        mutate_kinds=EW,
        window_kinds=WIN,
        mutate_names=[4, 5, 2, 1],
        rename_modes=[3, 3, 2, 1, 2],
        p_odd_names=0.2,
        p_empty_name=0.15,
        group_by_const=True,  # (names only are judged here; row-level effects are C04 territory)
        p_summarize_overwrite_group=0.3,
        crash_subjects={},
        core_ops=("src", "select", "mutate", "rename"),
    ),
    "refs": dict(
        property="C09",
        oracles=["O9"],
        weights=_w(ref=12, hide_ref=4, touch_hidden_computed=2, hidden_computed_scenario=2, overwrite_chain_scenario=3, selfjoin=3, agg_selfjoin_scenario=1, rename=7, select=5, drop=3, mutate=8, join=4, alias=3, collect=2, summarize=2, recompute=1, clone=1, union=2, mutate_w=1),
        p_union_same_origin=0.7,
        mutate_kinds=EW,
        window_kinds=WIN,
        mutate_names=[4, 4, 3, 0],
        rename_modes=[3, 4, 4, 0, 2],
        p_oos=0.12,
        p_alias_keep=0.5,
        refarg_mix=dict(r=6, c=2, o=1, n=1),
        max_probes=10,
        crash_subjects={k: "C09" for k in ("select", "drop", "rename", "mutate", "filter", "arrange", "group_by", "join")},
        core_ops=("src", "ref", "rename", "mutate", "select"),
    ),
    "join": dict(
        property="C06",
        oracles=["O6"],
        weights=_w(join=12, collide_setup=4, disjoint_join_scenario=5, join_chain_scenario=2, hidden_const_join_scenario=3, ref=6, hide_ref=3, rename=8, mutate=6, select=4, filter=4, filter_empty=1, alias=5, summarize=0, group_by=0, ungroup=0, union=0, collect=1, slice_head=0, arrange=1, mutate_w=0),
        mutate_kinds=dict(ref=2, tag=5, lit=0, add=1),
        window_kinds=WIN,
        mutate_names=[3, 3, 2, 4],
        rename_modes=[2, 2, 2, 6, 3],
        p_user_suffix=0.2,
        refarg_mix=dict(r=4, c=2, o=3, n=1),
        max_probes=10,
        crash_subjects={"join": "C06"},
        core_ops=("src", "join", "rename", "alias"),
        n_src=3,
    ),
    "reroot": dict(
        property="C16",
        oracles=["O16"],
        weights=_w(alias=8, collect=6, clone=4, transfer=4, recompute=2, ref=8, hide_ref=3, join=3, selfjoin=6, agg_selfjoin_scenario=2, const_alias_selfjoin_scenario=2, rename=4, select=4, mutate=5, group_by=4, summarize=2, union=0, mutate_w=1),
        mutate_kinds=EW,
        window_kinds=WIN,
        p_oos=0.15,
        p_alias_keep=0.4,
        refarg_mix=dict(r=5, c=2, o=2, n=1),
        max_probes=10,
        crash_subjects={k: "C16" for k in ("alias", "collect", "clone", "transfer", "recompute")},
        core_ops=("src", "alias", "collect", "ref"),
    ),
    "sharing": dict(
        property="C10",
        oracles=["O10"],
        weights=_w(reject=3, expr=6, pipe=3, apply_pipe=5, observe=8, collect_lazy=3, mutate=8, mutate_w=3, summarize=5, group_by=5, ungroup=2, ref=5, join=2, union=1, gc=1, arm_engine=1, select=2, rename=2, alias=2, collect=1, clone=1, transfer=2),
        mutate_kinds=dict(ref=1, tag=2, pool=8, case=1, litcast=2, lit=1),
        window_kinds=dict(agg=3, shift=2, rown=1, pool=6),
        summarize_kinds=dict(agg=3, pool=5, arith_agg=1),
        sessions=(2, 4),
        p_share=(0.4, 0.9),
        crash_subjects={},
        core_ops=("src", "expr", "mutate", "observe", "group_by", "summarize"),
    ),
    "rejects": dict(
        property="C14",
        oracles=["O14"],
        weights=_w(reject=14, mutate=6, mutate_w=4, group_by=5, summarize=4, join=3, alias=3, ref=8, select=4, drop=3, rename=3, transfer=2, collect=1, expr=3, hidden_group_reject_scenario=2),
        mutate_names=[4, 4, 2, 0],
        mutate_kinds=dict(EW, pool=2),
        window_kinds=dict(WIN, pool=5),
        summarize_kinds=dict(agg=3, pool=3),
        crash_subjects={},
        core_ops=("src", "reject", "mutate"),
    ),
    "subq": dict(
        property="C08",
        oracles=["O8"],
        weights=_w(mutate=5, mutate_w=8, filter=7, arrange=6, slice_head=7, group_by=5, ungroup=2, summarize=6, select=2, rename=2, join=3, union=1, alias=4, ref=5, hide_ref=4, touch_hidden_computed=4, hidden_computed_scenario=3, overwrite_chain_scenario=2, join_chain_scenario=2, hidden_const_join_scenario=2, collect=0, uuid_regime=1),
        mutate_kinds=dict(ref=2, tag=4, add=1, lit=1),
        mutate_names=[5, 3, 2, 1],
        rename_modes=[4, 2, 2, 1, 1],
        window_kinds=WIN,
        summarize_kinds=dict(agg=5, arith_agg=1),
        refarg_mix=dict(r=2, c=3, o=3, n=1),
        max_probes=6,
        p_alias_keep=0.0,
        force_replicas=["polars", "sqlite"],
        crash_subjects={},
        core_ops=("src", "mutate_w", "filter", "slice_head", "arrange", "summarize"),
        n_src=2,
    ),
    "sql": dict(
        property="C19",
        oracles=["O19"],
        weights=_w(mutate=7, mutate_w=6, filter=5, arrange=4, slice_head=4, group_by=4, ungroup=1, summarize=5, select=3, rename=3, join=5, union=2, alias=4, ref=6, hide_ref=3, hidden_computed_scenario=2, touch_hidden_computed=2, collect=0, observe=3, uuid_regime=2, cq_probe=8),
        mutate_kinds=dict(ref=2, tag=4, add=2, lit=1, case=2, litcast=2),
        mutate_names=[4, 5, 2, 1],
        rename_modes=[4, 2, 2, 1, 1],
        window_kinds=WIN,
        summarize_kinds=dict(agg=5, arith_agg=1),
        refarg_mix=dict(r=4, c=3, o=3, n=1),
        max_probes=6,
        p_alias_keep=0.2,
        force_replicas=["polars", "sqlite"],
        cq_replicas=["postgres", "mssql"],
        observe_kinds=["build_query", "export", "repr"],
        crash_subjects={},
        core_ops=("src", "mutate", "mutate_w", "join", "summarize", "alias"),
        n_src=3,
    ),
    "none": dict(property=None, oracles=[], weights=_w(), mutate_kinds=EW, window_kinds=WIN, crash_subjects={}),
}


def make_cfg(run_seed: int, profile_name: str, tier: str, *, population: str = "clean") -> dict:
    """Derive the whole run configuration from one integer."""
    p = PROFILES[profile_name]
    r = random.Random(f"cfg:{run_seed}")
    rows = {}
    big = tier == "thorough" and r.random() < 0.04
    for t in ("A", "B", "D", "A_1"):
        n = r.choice([0, 1, 2, 3, 4, 5, 6, 8, 10, 12])
        if big and t == "A":
            n = 130
        lst = list(range(n))
        r.shuffle(lst)
        rows[t] = lst
    reps = p.get("force_replicas") or r.choice([["polars"], ["polars", "sqlite"], ["polars", "sqlite"], ["sqlite"]])
    sess = p.get("sessions", (1, 2))
    psh = p.get("p_share", (0.2, 0.5))
    max_steps = r.randint(18, 40) if tier == "quick" else r.randint(25, 80)
    cfg = dict(
        seed=run_seed,
        profile_name=profile_name,
        tier=tier,
        population=population,
        replicas=reps,
        rows=rows,
        uuid_regime=r.choice(["counter", "counter", "descending", "random", "jumpback", "lowentropy"]),
        reverse_unordered=r.random() < 0.3,
        max_steps=max_steps,
        sessions=r.randint(*sess),
        p_share=r.uniform(*psh),
        cq_replicas=list(p.get("cq_replicas", [])),
        # C08 profile: half of the runs hold references (SubqueryError recovery then uses
        # alias(keep_col_refs=True)), the other half address columns by name only (plain alias())
        hold_refs=(r.random() < 0.5) if profile_name == "subq" else True,
    )
    return cfg
