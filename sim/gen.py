"""Seeded online generator of recipe steps for the history machine.

Every choice comes from the machine's PRNG (one integer decides everything).  The generator
reads only the *model* (never the real library objects), so that the same seed produces the
same history on every back end and in every environment as long as the library behaves the
same - which is exactly what the cross-environment oracles compare.
"""

from sim import exprs as X
from sim import world as W
from sim.machine import join_too_big
from sim.seams import UUID_REGIMES

COMMON = ["id", "u", "k", "kn", "x", "y", "g", "n", "s"]
ALIAS_NAMES = ["Z1", "Z2", "B", "A", "t", "A_1", "B_1"]
INTERRUPTIBLE = ("mutate", "summarize", "filter", "arrange", "group_by", "select", "rename", "join", "apply_pipe", "alias", "union", "slice_head")


class Generator:
    def __init__(self, mach):
        self.m = mach
        self.rng = mach.rng
        self.p = mach.profile
        self.w = dict(self.p["weights"])
        self.n_fresh = 0
        self.cur_session = 0
        self.plan = []  # pending steps of a multi-step scenario (callables step_index -> step | None)
        if not mach.cfg.get("hold_refs", True):
            self.w["ref"] = 0
            self.p = dict(self.p, refarg_mix=dict(self.p.get("refarg_mix", {}), r=0))
        self.interrupt_step = None
        if mach.cfg.get("population") == "interrupt":
            self.interrupt_step = self.rng.randrange(3, max(4, mach.cfg["max_steps"] - 2))
        if mach.cfg.get("population", "clean") == "clean":
            for k in ("arm_engine", "gc"):
                self.w[k] = 0
        else:
            self.w["gc"] = max(self.w.get("gc", 0), 1)
            self.w["uuid_regime"] = max(self.w.get("uuid_regime", 0), 2)
            if "sqlite" in mach.replicas:
                self.w["arm_engine"] = max(self.w.get("arm_engine", 0), 2)
                self.w["observe"] = max(self.w.get("observe", 0), 4)
        # swarm: disable a random subset of optional op kinds per run
        optional = [k for k in self.w if k not in self.p.get("core_ops", ("src",))]
        self.rng.shuffle(optional)
        n_off = int(len(optional) * self.p.get("swarm_off", 0.25) * self.rng.random() * 2)
        for k in optional[:n_off]:
            self.w[k] = 0

    # ------------------------------------------------------------------------------
    def next_step(self, i: int):
        m = self.m
        self.cur_i = i
        if i < self.p.get("n_src", 2) or not m.tables:
            st = self.g_src()
            st["s"] = 0
            return st
        self.cur_session = self.rng.randrange(m.sessions)
        while self.plan:
            st = self.plan.pop(0)(i)
            if st is not None:
                st["s"] = self.cur_session
                return st
        ops = [k for k, v in self.w.items() if v > 0]
        weights = [self.w[k] for k in ops]
        for _ in range(12):
            op = self.rng.choices(ops, weights)[0]
            st = getattr(self, "g_" + op)()
            if st is not None:
                st["s"] = self.cur_session
                if self.interrupt_step is not None and i >= self.interrupt_step and st["op"] in INTERRUPTIBLE:
                    st["interrupt_at"] = self.rng.randrange(1, 700)
                    self.interrupt_step = None
                return st
        return None

    # ------------------------------------------------------------------------------
    # helpers
    # ------------------------------------------------------------------------------
    def tables(self):
        ids = list(self.m.tables)
        return ids[-self.p.get("live_tables", 14) :]

    def pick_table(self, pred=None):
        m = self.m
        ids = [t for t in self.tables() if pred is None or pred(m.tables[t])]
        if not ids:
            return None
        own = [t for t in ids if m.tables[t].session == self.cur_session]
        if own and self.rng.random() > m.p_share:
            ids = own
        else:
            if m.sessions > 1:
                m.note("shared_pick")
        # recency bias
        w = [1 + 3 * (j / len(ids)) ** 2 for j in range(len(ids))]
        return m.tables[self.rng.choices(ids, w)[0]]

    def fresh_name(self):
        self.n_fresh += 1
        if self.rng.random() < self.p.get("p_odd_names", 0.0):
            # column names that are not Python identifiers (legal in frames and in SQL)
            self.m.note("non_identifier_column_name")
            return self.rng.choice(["m {}", "{}m", "m-{}", "m.{}", "m\u00fc{}"]).format(self.n_fresh)
        return f"m{self.n_fresh}"

    def new_k(self):
        while True:
            k = self.rng.randrange(1, 1 << 16)
            if k not in self.m.k_used:
                self.m.k_used.add(k)
                return k

    def refs_for_tok(self, tok):
        return [r for r, t in self.m.ref_toks.items() if t == tok]

    def refarg(self, pt, tok, *, allow_str=False, allow_own=True, pooled_only=False):
        """a way to address token `tok` in a verb applied to pt (None if impossible)"""
        mix = self.p.get("refarg_mix", dict(r=3, c=2, o=2, n=1))
        name = pt.m.name_of_tok(tok) if pt is not None else None
        opts, w = [], []
        pooled = self.refs_for_tok(tok)
        if pooled and mix.get("r", 0):
            opts.append("r")
            w.append(mix["r"])
        if not pooled_only and name is not None:
            if mix.get("c", 0):
                opts.append("c")
                w.append(mix["c"])
            if allow_own and mix.get("o", 0):
                opts.append("o")
                w.append(mix["o"])
            if allow_str and mix.get("n", 0):
                opts.append("n")
                w.append(mix["n"])
        if not opts:
            return None
        k = self.rng.choices(opts, w)[0]
        if k == "r":
            rid = self.rng.choice(pooled)
            age = self.m.step_no - self.m.ref_step[rid]
            if age >= 10:
                self.m.note("ref_used_10_steps_late")
            if name is None:
                self.m.note("hidden_ref_used")
            return {"r": rid}
        return {k: name}

    def addressable(self, pt, *, kinds=("int",), visible_only=False, decodable=False):
        """tokens of pt's scope we can address, filtered by kind"""
        T = self.m.model.toks
        out = []
        vis = set(pt.m.vis_toks())
        for t in pt.m.scope:
            tok = T[t]
            if kinds and tok.kind not in kinds:
                continue
            if decodable and (t in pt.m.opaque):
                continue
            if visible_only and t not in vis:
                continue
            if t in vis or self.refs_for_tok(t):
                out.append(t)
        return out

    def oos_refarg(self, pt, kinds=("int",)):
        """a pooled reference that is NOT in scope of pt (deliberately); of a kind that keeps the
        surrounding expression well typed, so that the scope error is the only error"""
        T = self.m.model.toks
        cands = [r for r, t in self.m.ref_toks.items() if t not in pt.m.scope and T[t].kind in kinds]
        if not cands:
            return None
        self.m.note("oos_ref_generated")
        return {"r": self.rng.choice(cands)}

    def maybe_oos(self, pt, kinds=("int",)):
        if self.rng.random() < self.p.get("p_oos", 0.0):
            return self.oos_refarg(pt, kinds)
        return None

    def total_order(self, pt, extra=0):
        """order spec list ending in the row-identifying tokens (None if impossible)"""
        m = pt.m
        T = self.m.model.toks
        if m.rowid is None:
            return None
        keys = []
        cands = self.addressable(pt, kinds=("int", "str"), decodable=False)
        for _ in range(extra):
            if cands:
                keys.append(self.rng.choice(cands))
        keys += [t for t in m.rowid if t not in keys]
        out = []
        for t in keys:
            a = self.refarg(pt, t)
            if a is None:
                return None
            tok = T[t]
            nullable = tok.nullable or (tok.lineage in m.padded) or tok.lineage is None or tok.kind == "opaque"
            spec = dict(
                a=a,
                desc=self.rng.random() < 0.3,
                nulls=self.rng.choice(["first", "last"]) if nullable else self.rng.choice([None, None, "first", "last"]),
            )
            if tok.kind == "int" and "n" not in a and self.rng.random() < self.p.get("p_order_expr", 0.15):
                spec["neg"] = True  # ordering key is an expression, not a plain column
                self.m.note("order_key_expression")
            out.append(spec)
        return out

    def threshold(self, pt, tok):
        """a comparison constant for an int token (keeps roughly the upper half / some rows)"""
        T = self.m.model.toks[tok]
        if T.kind != "int" or tok in pt.m.opaque:
            return None
        r = self.rng.choice([0, 1, 2, 3, 5])
        if T.mod:
            r = r % T.mod
        return W.v(T.T, T.c, r) + self.rng.choice(T.offs) * W.OFF

    # ------------------------------------------------------------------------------
    # expressions
    # ------------------------------------------------------------------------------
    def g_exprrec(self, pt, kinds, *, pooled_only=False, depth=0):
        """random expression recipe valid on pt (model-wise), or None"""
        rng = self.rng
        kind = rng.choices(list(kinds), list(kinds.values()))[0]
        ints = self.addressable(pt, kinds=("int",)) if pt is not None else []
        anyc = self.addressable(pt, kinds=("int", "str", "opaque", "const")) if pt is not None else []

        def ra(tok):
            return self.refarg(pt, tok, allow_own=not pooled_only, pooled_only=False)

        if kind == "pool":
            cands = list(self.m.exprs)
            if not cands:
                return None
            eid = rng.choice(cands)
            self.m.note("pooled_expr_used")
            return {"e": "pool", "x": eid}
        if kind == "lit":
            return {"e": "lit", "v": rng.randrange(1, 1000)}
        if kind == "litcast":
            return {"e": "litcast", "v": rng.randrange(1, 1000)}
        if not anyc:
            return None
        oos = self.maybe_oos(pt) if pt is not None else None
        if kind == "ref":
            a = (self.maybe_oos(pt, ("int", "str")) if pt is not None else None) or ra(rng.choice(anyc))
            return a and {"e": "ref", "a": a}
        if not ints:
            return None
        if kind == "tag":
            a = oos or ra(rng.choice(ints))
            return a and {"e": "tag", "a": a, "k": self.new_k()}
        if kind == "add":
            a, b = ra(rng.choice(ints)), ra(rng.choice(ints))
            return (a and b) and {"e": "add", "a": a, "b": b}
        if kind == "agg":
            a = oos or ra(rng.choice(ints))
            rec = {"e": "agg", "f": rng.choice(["min", "max", "sum", "count"]), "a": a}
            if rng.random() < 0.4 and not pooled_only:
                pb = self.partition_cols(pt)
                if pb:
                    rec["pb"] = pb
            return a and rec
        if kind == "shift":
            a = ra(rng.choice(ints))
            ar = self.total_order(pt)
            if a is None or not ar:
                return None
            rec = {"e": "shift", "a": a, "n": rng.choice([1, 1, 2, -1]), "ar": ar}
            if rng.random() < 0.3:
                pb = self.partition_cols(pt)
                if pb:
                    rec["pb"] = pb
            return rec
        if kind == "rown":
            ar = self.total_order(pt)
            if not ar:
                return None
            rec = {"e": "rown", "ar": ar}
            if rng.random() < 0.3:
                pb = self.partition_cols(pt)
                if pb:
                    rec["pb"] = pb
            return rec
        if kind == "wcase":
            if depth > 0 or pooled_only:
                return None
            inner = self.g_exprrec(pt, dict(rown=2, shift=2, agg=1), depth=depth + 1)
            if inner is None:
                return None
            if inner["e"] == "rown":
                thr = rng.choice([1, 2, 3])
            else:
                a = inner["a"]
                try:
                    tok = X.MCtx(self.m.model, pt.m, self.m.ref_toks, self.m.expr_recs).resolve(a)
                except (X.OutOfScope, KeyError):
                    return None
                thr = self.threshold(pt, tok)
                if thr is None:
                    return None
            self.m.note("window_in_case_condition")
            return {"e": "wcase", "w": inner, "thr": thr}
        if kind == "case":
            t = rng.choice(ints)
            a = ra(t)
            p = self.g_pred(pt)
            if a is None or p is None:
                return None
            return {"e": "case", "p": p, "a": {"e": "tag", "a": a, "k": self.new_k()}, "b": {"e": "tag", "a": a, "k": self.new_k()}}
        if kind == "arith_agg":
            a = ra(rng.choice(ints))
            return a and {"e": "arith", "a": {"e": "agg", "f": rng.choice(["min", "max", "sum"]), "a": a}, "k": rng.randrange(1, 9)}
        raise AssertionError(kind)

    def partition_cols(self, pt):
        T = self.m.model.toks
        cands = [t for t in self.addressable(pt, kinds=("int", "str")) if T[t].mod]
        if not cands:
            return None
        out = []
        for t in self.rng.sample(cands, min(len(cands), self.rng.choice([1, 1, 2]))):
            a = self.refarg(pt, t)
            if a:
                out.append(a)
        return out or None

    def g_pred(self, pt):
        rng = self.rng
        ints = self.addressable(pt, kinds=("int",), decodable=True)
        if not ints:
            return None
        t = rng.choice(ints)
        a = self.maybe_oos(pt) or self.refarg(pt, t)
        if a is None:
            return None
        tok = self.m.model.toks[t]
        if tok.nullable and rng.random() < 0.4:
            return {"p": "isnull", "a": a, "neg": rng.random() < 0.7}
        thr = self.threshold(pt, t)
        if thr is None:
            return None
        return {"p": "cmp", "op": rng.choice([">=", ">=", "<", "!="]), "a": a, "thr": thr}

    # ------------------------------------------------------------------------------
    # producers
    # ------------------------------------------------------------------------------
    def g_src(self):
        return {"op": "src", "T": self.rng.choice(["A", "B", "D", "A", "B", "D", "A_1"])}

    def g_ref(self):
        pt = self.pick_table()
        if pt is None or not pt.m.visible:
            return None
        if len(self.m.refs) >= self.p.get("max_refs", 24):
            return None
        how = self.rng.choice(["attr", "item", "item", "via"])
        if how == "via":
            vis = set(pt.m.vis_toks())
            good = [r for r, t in self.m.ref_toks.items() if t in vis]
            bad = [r for r, t in self.m.ref_toks.items() if t not in vis]
            if bad and self.rng.random() < self.p.get("p_oos", 0.0):
                return {"op": "ref", "t": pt.id, "how": "via", "via": self.rng.choice(bad)}
            if not good:
                return None
            return {"op": "ref", "t": pt.id, "how": "via", "via": self.rng.choice(good)}
        names = pt.m.names()
        # bias towards computed columns (window / aggregate results): references to them are what
        # later hiding / filtering / sub-query steps have to keep intact
        T = self.m.model.toks
        computed = [n for n, t in pt.m.visible if T[t].lineage is None and T[t].kind != "const"]
        if computed and self.rng.random() < 0.5:
            names = computed
        return {"op": "ref", "t": pt.id, "how": how, "name": self.rng.choice(names)}

    def g_hide_ref(self):
        """hide (drop / select away) a column that some call site still holds a reference to"""
        m = self.m
        held = set(m.ref_toks.values())
        pt = self.pick_table(lambda p: len(p.m.visible) >= 3 and any(t in held for t in p.m.vis_toks()))
        if pt is None:
            return None
        cands = [t for t in pt.m.vis_toks() if t in held]
        T = m.model.toks
        computed = [t for t in cands if T[t].lineage is None]
        tok = self.rng.choice(computed if computed and self.rng.random() < 0.6 else cands)
        a = self.refarg(pt, tok, allow_str=True)
        if a is None:
            return None
        m.note("referenced_column_hidden")
        return {"op": "drop", "t": pt.id, "cols": [a]}

    def g_select(self):
        pt = self.pick_table(lambda p: len(p.m.visible) >= 2)
        if pt is None:
            return None
        vis = pt.m.vis_toks()
        k = self.rng.randint(max(1, len(vis) - 4), len(vis))
        toks = self.rng.sample(vis, k)
        if self.rng.random() < 0.5:
            toks = [t for t in vis if t in set(toks)]  # keep order
        else:
            self.m.note("select_reorder")
        # keep the row-identifying columns addressable: prefer to keep them visible
        cols = [self.refarg(pt, t, allow_str=True) for t in toks]
        if any(c is None for c in cols):
            return None
        oos = self.maybe_oos(pt, ("int", "str"))
        if oos:
            cols.insert(self.rng.randrange(len(cols) + 1), oos)
            self.m.note("oos_in:select")
        return {"op": "select", "t": pt.id, "cols": cols}

    def g_drop(self):
        pt = self.pick_table(lambda p: len(p.m.visible) >= 3)
        if pt is None:
            return None
        vis = pt.m.vis_toks()
        toks = self.rng.sample(vis, self.rng.randint(1, min(3, len(vis) - 1)))
        cols = [self.refarg(pt, t, allow_str=True) for t in toks]
        if any(c is None for c in cols):
            return None
        oos = self.maybe_oos(pt, ("int", "str"))
        if oos:
            cols.insert(self.rng.randrange(len(cols) + 1), oos)
            self.m.note("oos_in:drop")
        return {"op": "drop", "t": pt.id, "cols": cols}

    def collision_names(self):
        out = []
        names = ["A", "B", "D"] + ALIAS_NAMES
        for c in ("x", "y", "u", "k", "id", "g"):
            for t in names[:5]:
                out += [f"{c}_{t}", f"{c}_{t}_1", f"{c}_{t}_2"]
            # names that look like the labels the SQL back end gives to same-named columns in a sub-query
            out += [f"{c}_1", f"{c}_2"]
        return out

    def g_rename(self):
        pt = self.pick_table(lambda p: len(p.m.visible) >= 1)
        if pt is None:
            return None
        m = pt.m
        vis = list(m.visible)
        rng = self.rng
        mode = rng.choices(["fresh", "swap", "hidden", "collide", "common"], self.p.get("rename_modes", [4, 2, 2, 0, 1]))[0]
        mp = []
        if mode == "swap" and len(vis) >= 2:
            (n1, t1), (n2, t2) = rng.sample(vis, 2)
            mp = [(t1, n2), (t2, n1)]
            self.m.note("rename_swap")
        elif mode == "hidden":
            hidden_names = self.hidden_names(pt)
            free = [n for n in hidden_names if n not in m.names()]
            if not free:
                return None
            n, t = rng.choice(vis)
            mp = [(t, rng.choice(free))]
            self.m.note("rename_onto_hidden_name")
        elif mode == "collide":
            cands = [n for n in self.collision_names() if n not in m.names()]
            n, t = rng.choice(vis)
            mp = [(t, rng.choice(cands))]
            self.m.note("rename_collision_name")
        elif mode == "common":
            free = [n for n in COMMON if n not in m.names()]
            if not free:
                return None
            n, t = rng.choice(vis)
            mp = [(t, rng.choice(free))]
        else:
            for n, t in rng.sample(vis, min(len(vis), rng.choice([1, 1, 2]))):
                mp.append((t, self.fresh_name()))
            if "sqlite" not in self.m.replicas and "" not in m.names() and rng.random() < self.p.get("p_empty_name", 0.0):
                # the empty string is a legal column name of a polars frame (SQLAlchemy turns an
                # empty label into an anonymous one, so this is generated on polars-only runs)
                mp[0] = (mp[0][0], "")
                self.m.note("rename_to_empty_name")
        final = {t: n for n, t in vis}
        for t, n in mp:
            final[t] = n
        if len(set(final.values())) != len(final):
            return None
        out = []
        for t, n in mp:
            a = self.refarg(pt, t, allow_str=True)
            if a is None:
                return None
            out.append([a, n])
        oos = self.maybe_oos(pt, ("int", "str"))
        if oos:
            out.append([oos, self.fresh_name()])
            self.m.note("oos_in:rename")
        return {"op": "rename", "t": pt.id, "map": out}

    def hidden_names(self, pt):
        """names that columns hidden in pt once had (we remember the source names)"""
        T = self.m.model.toks
        out = []
        for t in pt.m.hidden():
            # the last visible name is not stored in the model; use the source column names
            for cn in COMMON:
                sp = W.COLS[cn]
                if T[t].kind in ("int", "str") and T[t].c == sp["c"]:
                    out.append(cn)
        return out

    def g_mutate(self, window=False):
        pt = self.pick_table(lambda p: len(p.m.scope) >= 1)
        if pt is None:
            return None
        rng = self.rng
        kinds = self.p["window_kinds"] if window else self.p["mutate_kinds"]
        cols = []
        used = set()
        for _ in range(rng.choice([1, 1, 2])):
            rec = self.g_exprrec(pt, kinds)
            if rec is None:
                continue
            mode = rng.choices(["fresh", "overwrite", "recreate", "collide"], self.p.get("mutate_names", [6, 3, 1, 0]))[0]
            name = None
            if mode == "overwrite" and pt.m.visible:
                name = rng.choice(pt.m.names())
                self.m.note("mutate_overwrite")
            elif mode == "recreate":
                free = [n for n in self.hidden_names(pt) if n not in pt.m.names()]
                if free:
                    name = rng.choice(free)
                    self.m.note("mutate_recreate_hidden_name")
            elif mode == "collide":
                cands = [n for n in self.collision_names() if n not in pt.m.names()]
                name = rng.choice(cands)
            if name is None:
                name = self.fresh_name()
            if name in used:
                continue
            used.add(name)
            cols.append([name, rec])
        if not cols:
            return None
        return {"op": "mutate", "t": pt.id, "cols": cols}

    def g_collide_setup(self):
        """manufacture a numeric-suffix configuration for a later join: the left table gets columns
        named like suffixed right columns (c1_R, c2_R_1, ...), in every subset"""
        rng = self.rng
        pt = self.pick_table(lambda p: not p.m.grouping and len(p.m.visible) <= 12)
        if pt is None:
            return None
        others = [self.m.tables[t] for t in self.tables() if t != pt.id and self.m.tables[t].m.name]
        if not others:
            return None
        R = rng.choice(others).m.name
        ints = self.addressable(pt, kinds=("int",))
        if not ints:
            return None
        commons = [c for c in ("x", "y", "u", "k", "id", "g", "n", "kn")]
        rng.shuffle(commons)
        cols = []
        for c in commons[: rng.choice([1, 2, 2, 3])]:
            for sfx in rng.sample(["", "_1", "_2"], rng.choice([1, 1, 2])):
                name = f"{c}_{R}{sfx}"
                if name in pt.m.names() or any(name == n for n, _ in cols):
                    continue
                a = self.refarg(pt, rng.choice(ints))
                if a is None:
                    continue
                cols.append([name, {"e": "tag", "a": a, "k": self.new_k()}])
        if not cols:
            return None
        self.m.note("collision_setup")
        return {"op": "mutate", "t": pt.id, "cols": cols}

    def g_disjoint_join_scenario(self):
        """two tables whose VISIBLE names are disjoint (the rest hidden by select), then a join on an
        expression equality: hidden/visible and hidden/hidden name collisions without any suffixing"""
        m = self.m
        rng = self.rng
        T = m.model.toks
        l = self.pick_table(lambda p: not p.m.grouping and len(p.m.visible) >= 4)
        if l is None:
            return None

        def ok(p):
            return p.id != l.id and not p.m.grouping and len(p.m.visible) >= 4 and not (p.m.origins & l.m.origins) and not (set(p.m.scope) & set(l.m.scope)) and set(p.real) & set(l.real)

        r = self.pick_table(ok)
        if r is None:
            return self.g_alias()
        common = [n for n in l.m.names() if n in r.m.names()]
        rng.shuffle(common)
        keep_l = set(common[: len(common) // 2]) | {n for n in l.m.names() if n not in r.m.names()}
        keep_r = set(common[len(common) // 2 :]) | {n for n in r.m.names() if n not in l.m.names()}
        # variant: the join columns (shared keys) keep their names on BOTH sides and are the only
        # clashing names - the documented "only the clashing right columns are renamed" case
        shared_keys = []
        if rng.random() < 0.5:
            def is_key(n):
                a, b = l.m.tok_of_name(n), r.m.tok_of_name(n)
                return a is not None and b is not None and T[a].kind == T[b].kind == "int" and T[a].T == T[b].T == 0 and T[a].c == T[b].c and T[a].offs == T[b].offs == (0,) and a not in l.m.opaque and b not in r.m.opaque
            shared_keys = [n for n in common if is_key(n)][: rng.choice([1, 2, 2])]
            keep_l |= set(shared_keys)
            keep_r |= set(shared_keys)
        lt = [t for n, t in l.m.visible if n in keep_l]
        rt = [t for n, t in r.m.visible if n in keep_r]
        if len(lt) < 1 or len(rt) < 1:
            return None
        lcols = [self.refarg(l, t, allow_str=True) for t in lt]
        rcols = [self.refarg(r, t, allow_str=True) for t in rt]
        if any(c is None for c in lcols + rcols):
            return None
        state = {}

        def sel_right(i):
            state["l"] = f"t{i - 1}"
            if state["l"] not in m.tables or r.id not in m.tables:
                self.plan.clear()
                return None
            return {"op": "select", "t": r.id, "cols": rcols}

        def do_join(i):
            lt_, rt_ = m.tables.get(state.get("l")), m.tables.get(f"t{i - 1}")
            if lt_ is None or rt_ is None:
                return None
            li = [t for t in self.addressable(lt_, kinds=("int",), decodable=True, visible_only=True) if len(T[t].offs) == 1 and T[t].T]
            ri = [t for t in self.addressable(rt_, kinds=("int",), decodable=True, visible_only=True) if len(T[t].offs) == 1 and T[t].T]
            pairs = [(a, b) for a in li for b in ri if T[a].mod == T[b].mod]
            m.note("disjoint_join_scenario")
            keys = [n for n in shared_keys if lt_.m.tok_of_name(n) is not None and rt_.m.tok_of_name(n) is not None]
            if keys:
                m.note("join_only_key_columns_clash")
                on = [n if rng.random() < 0.5 else {"p": "eq", "a": {"o": n}, "b": {"ro": n}} for n in keys]
                return {"op": "join", "l": lt_.id, "r": rt_.id, "on": on, "how": rng.choice(["inner", "left", "full"])}
            if not pairs:
                return {"op": "join", "l": lt_.id, "r": rt_.id, "on": [], "how": "inner", "cross": bool(rng.random() < 0.5)}
            a, b = rng.choice(pairs)
            na, nb = lt_.m.name_of_tok(a), rt_.m.name_of_tok(b)
            da = W.v(T[a].T, T[a].c, 0) + T[a].offs[0] * W.OFF
            db = W.v(T[b].T, T[b].c, 0) + T[b].offs[0] * W.OFF
            return {"op": "join", "l": lt_.id, "r": rt_.id, "on": [{"p": "eqx", "a": {"o": na}, "b": {"ro": nb}, "da": da, "db": db}], "how": rng.choice(["inner", "left", "full"])}

        def sel_left(i):
            return {"op": "select", "t": l.id, "cols": lcols} if l.id in m.tables else None

        def ref_right(i):
            # (i - 1 is the select of the left table)
            state["l"] = f"t{i - 1}"
            rid_tok = next((t for t in (r.m.rowid or ()) if r.m.name_of_tok(t)), None)
            if rid_tok is None or r.id not in m.tables:
                return None
            return {"op": "ref", "t": r.id, "how": "item", "name": r.m.name_of_tok(rid_tok)}

        def sel_right2(i):
            if state.get("l") not in m.tables or r.id not in m.tables:
                self.plan.clear()
                return None
            return {"op": "select", "t": r.id, "cols": rcols}

        def suffix_like_col(i):
            # the right table already owns a column called like a suffixed key column
            rt_ = m.tables.get(f"t{i - 1}")
            if rt_ is None or not shared_keys or rt_.m.name is None or rng.random() < 0.5:
                return None
            ints = self.addressable(rt_, kinds=("int",), visible_only=True)
            name = f"{rng.choice(shared_keys)}_{rt_.m.name}"
            if not ints or name in rt_.m.names():
                return None
            a = self.refarg(rt_, rng.choice(ints))
            if a is None:
                return None
            m.note("right_owns_suffix_like_column")
            return {"op": "mutate", "t": rt_.id, "cols": [[name, {"e": "tag", "a": a, "k": self.new_k()}]]}

        # references to the row-identifying columns are taken first: they stay usable when hidden
        lid_tok = next((t for t in (l.m.rowid or ()) if l.m.name_of_tok(t)), None)
        self.plan = [sel_left, ref_right, sel_right2, suffix_like_col, do_join]
        if lid_tok is None:
            return self.plan.pop(0)(None)
        return {"op": "ref", "t": l.id, "how": "item", "name": l.m.name_of_tok(lid_tok)}

    def eq_on(self, lt_, rt_):
        """an equality `on` between decodable int columns of comparable value ranges, or None"""
        T = self.m.model.toks
        li = [t for t in self.addressable(lt_, kinds=("int",), decodable=True, visible_only=True) if len(T[t].offs) == 1 and T[t].T]
        ri = [t for t in self.addressable(rt_, kinds=("int",), decodable=True, visible_only=True) if len(T[t].offs) == 1 and T[t].T]
        pairs = [(a, b) for a in li for b in ri if T[a].mod == T[b].mod]
        if not pairs:
            return None
        a, b = self.rng.choice(pairs)
        na, nb = lt_.m.name_of_tok(a), rt_.m.name_of_tok(b)
        da = W.v(T[a].T, T[a].c, 0) + T[a].offs[0] * W.OFF
        db = W.v(T[b].T, T[b].c, 0) + T[b].offs[0] * W.OFF
        return [{"p": "eqx", "a": {"o": na}, "b": {"ro": nb}, "da": da, "db": db}]

    def g_join_chain_scenario(self):
        """three narrow tables (a few columns each), filters on some of them, joined twice: the
        second join sees a left operand that is itself a join (with merged WHERE clauses on SQL)"""
        m = self.m
        rng = self.rng
        T = m.model.toks

        def usable(p):
            return not p.m.grouping and p.m.rowid and all(p.m.name_of_tok(t) for t in p.m.rowid) and len(self.addressable(p, kinds=("int",), decodable=True, visible_only=True)) >= 2 and (p.nrows or 12) <= 40

        a = self.pick_table(usable)
        if a is None:
            return None

        def disjoint(p, others):
            return all(p.id != o.id and not (p.m.origins & o.m.origins) and not (set(p.m.scope) & set(o.m.scope)) and set(p.real) & set(o.real) for o in others)

        b = self.pick_table(lambda p: usable(p) and disjoint(p, [a]))
        if b is None:
            return self.g_src()
        c = self.pick_table(lambda p: usable(p) and disjoint(p, [a, b]))
        if c is None:
            return self.g_src()
        st = {}

        def narrow(pt):
            keep = list(pt.m.rowid)
            ints = [t for t in self.addressable(pt, kinds=("int",), decodable=True, visible_only=True) if t not in keep]
            keep += rng.sample(ints, min(len(ints), rng.choice([1, 2, 2])))
            toks = [t for t in pt.m.vis_toks() if t in keep]
            return {"op": "select", "t": pt.id, "cols": [{"c": pt.m.name_of_tok(t)} for t in toks]}

        def mk_select(key, pt):
            def f(i):
                if pt.id not in m.tables:
                    self.plan.clear()
                    return None
                st[key] = f"t{i}"
                return narrow(pt)
            return f

        def mk_filter(key, prob):
            def f(i):
                p2 = m.tables.get(st.get(key))
                if p2 is None or rng.random() >= prob:
                    return None
                pr = self.g_pred(p2)
                if not pr:
                    return None
                st[key] = f"t{i}"
                m.note("join_chain_filter:" + key)
                return {"op": "filter", "t": p2.id, "preds": [pr]}
            return f

        def mk_join(lkey, rkey, outkey, hows):
            def f(i):
                l2, r2 = m.tables.get(st.get(lkey)), m.tables.get(st.get(rkey))
                if l2 is None or r2 is None:
                    self.plan.clear()
                    return None
                on = self.eq_on(l2, r2)
                if on is None:
                    self.plan.clear()
                    return None
                st[outkey] = f"t{i}"
                how = rng.choice(hows)
                m.note("join_chain:" + outkey + ":" + how)
                return {"op": "join", "l": l2.id, "r": r2.id, "on": on, "how": how}
            return f

        self.plan = [
            mk_filter("a", 0.3),
            mk_select("b", b),
            mk_filter("b", 0.6),
            mk_join("a", "b", "ab", ["inner", "inner", "left"]),
            mk_filter("ab", 0.3),
            mk_select("c", c),
            mk_filter("c", 0.3),
            mk_join("ab", "c", "abc", ["full", "full", "left", "inner"]),
        ]
        st["a"] = f"t{self.cur_i}"
        m.note("join_chain_scenario")
        return narrow(a)

    def g_hidden_const_join_scenario(self):
        """a literal column is added to a single-source table, a reference to it is taken, the
        column is hidden, and the table becomes the RIGHT side of a left / full join (or the left
        side of a full join): through the reference the literal is null on the padded rows"""
        m = self.m
        rng = self.rng
        if not m.cfg.get("hold_refs", True) or len(m.refs) + 1 > self.p.get("max_refs", 24):
            return None

        def single(p):
            return not p.m.grouping and p.m.rowid and not (p.m.n_join or p.m.n_union or p.m.n_summarize or p.m.n_limit) and len(p.m.visible) >= 2 and (p.nrows or 12) <= 40

        r = self.pick_table(single)
        if r is None:
            return None
        l = self.pick_table(lambda p: p.id != r.id and not p.m.grouping and not (p.m.origins & r.m.origins) and not (set(p.m.scope) & set(r.m.scope)) and set(p.real) & set(r.real) and len(p.m.visible) + len(r.m.visible) <= 24 and (p.nrows or 12) <= 40)
        if l is None:
            return self.g_src()
        name = self.fresh_name()
        st = {"r": f"t{self.cur_i}"}

        def take_ref(i):
            if st["r"] not in m.tables:
                self.plan.clear()
                return None
            st["ref"] = f"r{i}"
            return {"op": "ref", "t": st["r"], "how": "item", "name": name}

        def hide(i):
            if st.get("ref") not in m.refs or st["r"] not in m.tables:
                self.plan.clear()
                return None
            st["r2"] = f"t{i}"
            return {"op": "drop", "t": st["r"], "cols": [{"c": name}]}

        def do_join(i):
            r2, l2 = m.tables.get(st.get("r2")), m.tables.get(l.id)
            if r2 is None or l2 is None:
                self.plan.clear()
                return None
            how = rng.choice(["left", "left", "full"])
            swap = how == "full" and rng.random() < 0.3
            a, b = (r2, l2) if swap else (l2, r2)
            on = self.eq_on(a, b)
            if on is None:
                self.plan.clear()
                return None
            st["j"] = f"t{i}"
            m.note("hidden_const_join:" + how)
            return {"op": "join", "l": a.id, "r": b.id, "on": on, "how": how}

        def use(i):
            j = m.tables.get(st.get("j"))
            if j is None or st["ref"] not in m.refs:
                return None
            m.note("hidden_const_used_after_join")
            return {"op": "mutate", "t": j.id, "cols": [[self.fresh_name(), {"e": "ref", "a": {"r": st["ref"]}}]]}

        self.plan = [take_ref, hide, do_join, use]
        return {"op": "mutate", "t": r.id, "cols": [[name, {"e": "lit", "v": rng.randrange(100, 999)}]]}

    def g_agg_selfjoin_scenario(self):
        """an aggregate of a table is re-rooted (plain alias, possibly twice) and joined back onto the
        table it was computed from: the columns that the summarize dropped exist on the left side
        only, and must keep denoting the left side's data in and after the join"""
        m = self.m
        rng = self.rng
        T = m.model.toks

        def ok(p):
            if p.m.grouping or not p.m.rowid or (p.nrows or 12) > 40 or len(p.m.visible) > 14:
                return False
            vis = p.m.vis_toks()
            keys = [t for t in vis if T[t].kind == "int" and T[t].mod and t not in p.m.opaque]
            vals = [t for t in vis if T[t].kind == "int" and not T[t].mod and t not in p.m.opaque]
            return bool(keys) and bool(vals)

        a = self.pick_table(ok)
        if a is None:
            return None
        vis = a.m.vis_toks()
        key = a.m.name_of_tok(rng.choice([t for t in vis if T[t].kind == "int" and T[t].mod and t not in a.m.opaque]))
        val = a.m.name_of_tok(rng.choice([t for t in vis if T[t].kind == "int" and not T[t].mod and t not in a.m.opaque]))
        st = {"cur": f"t{self.cur_i}"}

        def summ(i):
            if st["cur"] not in m.tables:
                self.plan.clear()
                return None
            prev, st["cur"] = st["cur"], f"t{i}"
            return {"op": "summarize", "t": prev, "cols": [[self.fresh_name(), {"e": "agg", "f": rng.choice(["max", "min", "sum"]), "a": {"c": val}}]]}

        def al(p):
            def f(i):
                if st["cur"] not in m.tables or rng.random() >= p:
                    return None
                prev, st["cur"] = st["cur"], f"t{i}"
                return {"op": "alias", "t": prev, "name": rng.choice([None, None, *ALIAS_NAMES]), "keep": False}
            return f

        def do_join(i):
            r2, l2 = m.tables.get(st["cur"]), m.tables.get(a.id)
            if r2 is None or l2 is None or r2.m.same_as is None or l2.m.tok_of_name(key) is None or r2.m.tok_of_name(key) is None:
                self.plan.clear()
                return None
            m.note("agg_selfjoin_scenario")
            on = [key] if rng.random() < 0.3 else [{"p": "eq", "a": {"o": key}, "b": {"ro": key}}]
            return {"op": "join", "l": l2.id, "r": r2.id, "on": on, "how": rng.choice(["inner", "left", "inner"]), "selfjoin": True}

        self.plan = [summ, al(1.0), al(0.3), do_join]
        return {"op": "group_by", "t": a.id, "cols": [{"c": key}], "add": False}

    def g_hidden_group_reject_scenario(self):
        """a table is grouped, the grouping column is hidden, the table is re-rooted by a plain
        alias(): it is still a grouped table, so slice_head / join / union must reject it"""
        from sim.rejects import gen_reject

        m = self.m
        rng = self.rng
        T = m.model.toks
        a = self.pick_table(lambda p: not p.m.grouping and len(p.m.visible) >= 3 and any(T[t].mod and T[t].kind == "int" for t in p.m.vis_toks()))
        if a is None:
            return None
        key = a.m.name_of_tok(rng.choice([t for t in a.m.vis_toks() if T[t].mod and T[t].kind == "int"]))
        st = {"cur": f"t{self.cur_i}"}

        def hide(i):
            if st["cur"] not in m.tables:
                self.plan.clear()
                return None
            prev, st["cur"] = st["cur"], f"t{i}"
            return {"op": "drop", "t": prev, "cols": [{"c": key}]}

        def al(i):
            if st["cur"] not in m.tables:
                self.plan.clear()
                return None
            if rng.random() < 0.25:
                return None
            prev, st["cur"] = st["cur"], f"t{i}"
            return {"op": "alias", "t": prev, "name": rng.choice([None, *ALIAS_NAMES]), "keep": rng.random() < 0.2}

        def rej(i):
            pt = m.tables.get(st["cur"])
            if pt is None or not pt.m.grouping:
                return None
            m.note("hidden_group_reject_scenario")
            return gen_reject(self, force_pt=pt, force_rules=["slice_grouped", "join_grouped", "union_grouped"])

        self.plan = [hide, al, rej]
        return {"op": "group_by", "t": a.id, "cols": [{"c": key}], "add": False}

    def g_const_alias_selfjoin_scenario(self):
        """a table gets a literal column, is re-rooted by a plain alias(), the copy is filtered and
        joined back (left / full) onto the table: on the rows without a partner the copy's literal
        column is null like the copy's other columns"""
        m = self.m
        rng = self.rng

        def single(p):
            return not p.m.grouping and p.m.rowid and all(p.m.name_of_tok(t) for t in p.m.rowid) and not (p.m.n_join or p.m.n_union or p.m.n_summarize or p.m.n_limit) and 2 <= len(p.m.visible) <= 12 and (p.nrows or 12) <= 40

        a = self.pick_table(single)
        if a is None:
            return None
        key = a.m.name_of_tok(a.m.rowid[0])
        st = {"lit": f"t{self.cur_i}"}

        def al(i):
            if st["lit"] not in m.tables:
                self.plan.clear()
                return None
            st["copy"] = f"t{i}"
            return {"op": "alias", "t": st["lit"], "name": rng.choice([None, *ALIAS_NAMES]), "keep": False}

        def flt(i):
            p2 = m.tables.get(st.get("copy"))
            if p2 is None:
                self.plan.clear()
                return None
            pr = self.g_pred(p2)
            if not pr:
                return None
            st["copy"] = f"t{i}"
            return {"op": "filter", "t": p2.id, "preds": [pr]}

        def do_join(i):
            l2, r2 = m.tables.get(st["lit"]), m.tables.get(st.get("copy"))
            if l2 is None or r2 is None or l2.m.tok_of_name(key) is None or r2.m.tok_of_name(key) is None:
                self.plan.clear()
                return None
            m.note("const_alias_selfjoin_scenario")
            return {"op": "join", "l": l2.id, "r": r2.id, "on": [{"p": "eq", "a": {"o": key}, "b": {"ro": key}}], "how": rng.choice(["left", "full"]), "selfjoin": True}

        self.plan = [al, flt, do_join]
        return {"op": "mutate", "t": a.id, "cols": [[self.fresh_name(), {"e": "lit", "v": rng.randrange(100, 999)}]]}

    def g_mutate_w(self):
        st = self.g_mutate(window=True)
        return st

    def g_filter(self):
        pt = self.pick_table()
        if pt is None:
            return None
        preds = [p for p in (self.g_pred(pt) for _ in range(self.rng.choice([1, 1, 2]))) if p]
        if not preds:
            return None
        return {"op": "filter", "t": pt.id, "preds": preds}

    def g_touch_hidden_computed(self):
        """apply a row-level verb to a table that carries a HIDDEN computed (window / aggregate)
        column some call site still references - the state in which a back end is tempted to forget
        the column (sub-query catalogue, column pruning)"""
        m = self.m
        T = m.model.toks
        held = set(m.ref_toks.values())

        def has(p):
            return any(t in held and T[t].lineage is None and T[t].kind != "const" for t in p.m.hidden())

        pt = self.pick_table(has)
        if pt is None:
            return None
        m.note("verb_on_table_with_hidden_referenced_computed_column")
        kind = self.rng.choice(["filter", "filter", "arrange", "mutate", "slice"])
        if kind == "filter":
            preds = [p for p in (self.g_pred(pt),) if p]
            return {"op": "filter", "t": pt.id, "preds": preds} if preds else None
        if kind == "arrange":
            by = self.total_order(pt, extra=1)
            return {"op": "arrange", "t": pt.id, "by": by} if by else None
        if kind == "slice" and pt.m.order_fixed and not pt.m.grouping:
            return {"op": "slice_head", "t": pt.id, "n": self.rng.choice([1, 2, 3, 5]), "offset": self.rng.choice([0, 1])}
        rec = self.g_exprrec(pt, self.p["mutate_kinds"])
        return {"op": "mutate", "t": pt.id, "cols": [[self.fresh_name(), rec]]} if rec else None

    def g_hidden_computed_scenario(self):
        """multi-step scenario: compute a window / aggregate column, take a reference to it, hide it,
        then apply a row-level verb to the result"""
        if not self.m.cfg.get("hold_refs", True) or len(self.m.refs) >= self.p.get("max_refs", 24):
            return None
        st = self.g_mutate(window=True)
        if st is None:
            return None
        name = st["cols"][-1][0]
        state = {}

        def take_ref(i):
            tid = f"t{i - 1}"
            if tid not in self.m.tables or self.m.tables[tid].m.tok_of_name(name) is None:
                self.plan.clear()
                return None
            state["t"] = tid
            state["r"] = f"r{i}"
            return {"op": "ref", "t": tid, "how": self.rng.choice(["attr", "item"]), "name": name}

        def hide(i):
            pt0 = self.m.tables.get(state.get("t"))
            if state.get("r") not in self.m.refs or pt0 is None or len(pt0.m.visible) < 2:
                self.plan.clear()
                return None
            state["h"] = f"t{i}"
            return {"op": "drop", "t": state["t"], "cols": [self.rng.choice([{"r": state["r"]}, {"c": name}, {"n": name}])]}

        def touch(i):
            pt = self.m.tables.get(state.get("h"))
            if pt is None:
                return None
            self.m.note("hidden_computed_scenario")
            preds = [p for p in (self.g_pred(pt),) if p]
            if preds and self.rng.random() < 0.7:
                return {"op": "filter", "t": pt.id, "preds": preds}
            by = self.total_order(pt, extra=1)
            return {"op": "arrange", "t": pt.id, "by": by} if by else None

        self.plan = [take_ref, hide, touch]
        return st

    def g_overwrite_chain_scenario(self):
        """a name is overwritten twice while references to both older versions are held; then a
        row-level verb after slice_head (on SQL: a sub-query) - three same-named columns, two of
        them hidden, have to stay apart"""
        if not self.m.cfg.get("hold_refs", True) or len(self.m.refs) + 2 > self.p.get("max_refs", 24):
            return None
        m = self.m
        T = m.model.toks
        pt = self.pick_table(lambda p: not p.m.grouping and p.m.rowid and any(T[t].kind == "int" and t not in p.m.opaque for t in p.m.vis_toks()))
        if pt is None:
            return None
        cands = [n for n, t in pt.m.visible if T[t].kind == "int" and t not in pt.m.opaque and T[t].T and t not in (pt.m.rowid or ())]
        if not cands:
            return None
        name = self.rng.choice(cands)
        st = {"cur": pt.id}

        def ow(i):
            rid = f"r{i - 1}"
            if rid not in m.refs or st["cur"] not in m.tables:
                self.plan.clear()
                return None
            st["cur_next"] = f"t{i}"
            return {"op": "mutate", "t": st["cur"], "cols": [[name, {"e": "tag", "a": {"r": rid}, "k": self.new_k()}]]}

        def ref_again(i):
            st["cur"] = st["cur_next"]
            if st["cur"] not in m.tables:
                self.plan.clear()
                return None
            return {"op": "ref", "t": st["cur"], "how": "item", "name": name}

        def order(i):
            st["cur"] = st["cur_next"]
            p2 = m.tables.get(st["cur"])
            by = self.total_order(p2) if p2 is not None else None
            if not by:
                self.plan.clear()
                return None
            st["cur_next"] = f"t{i}"
            return {"op": "arrange", "t": p2.id, "by": by}

        def cut(i):
            if st["cur_next"] not in m.tables:
                self.plan.clear()
                return None
            st["cur"] = st["cur_next"]
            st["cur_next"] = f"t{i}"
            return {"op": "slice_head", "t": st["cur"], "n": self.rng.choice([3, 5, 8]), "offset": 0}

        def touch(i):
            p2 = m.tables.get(st["cur_next"])
            if p2 is None:
                return None
            m.note("overwrite_chain_scenario")
            preds = [p for p in (self.g_pred(p2),) if p]
            return {"op": "filter", "t": p2.id, "preds": preds} if preds else None

        def label_like(i):
            # another column is called like the label the SQL back end gives to the second of two
            # same-named columns inside a sub-query (`<name>_1`)
            st["cur"] = st["cur_next"]
            p2 = m.tables.get(st["cur"])
            if p2 is None:
                self.plan.clear()
                return None
            others = [n for n in p2.m.names() if n != name and p2.m.tok_of_name(n) not in (p2.m.rowid or ())]
            lab = f"{name}_{self.rng.choice([1, 1, 2])}"
            if not others or lab in p2.m.names() or self.rng.random() < 0.5:
                st["cur_next"] = st["cur"]
                return None
            st["cur_next"] = f"t{i}"
            m.note("label_like_column_name")
            return {"op": "rename", "t": p2.id, "map": [[{"c": self.rng.choice(others)}, lab]]}

        self.plan = [ow, ref_again, ow, label_like, order, cut, touch]
        return {"op": "ref", "t": pt.id, "how": "attr", "name": name}

    def g_filter_empty(self):
        """always-false filter (empty sides)"""
        pt = self.pick_table()
        if pt is None:
            return None
        ints = [t for t in self.addressable(pt, kinds=("int",), decodable=True) if not self.m.model.toks[t].nullable]
        if not ints:
            return None
        a = self.refarg(pt, self.rng.choice(ints))
        if a is None:
            return None
        self.m.note("filter_always_false")
        return {"op": "filter", "t": pt.id, "preds": [{"p": "cmp", "op": "<", "a": a, "thr": -1}]}

    def g_arrange(self):
        pt = self.pick_table()
        if pt is None:
            return None
        by = self.total_order(pt, extra=self.rng.choice([0, 1, 1, 2]))
        if by is not None and not by:
            return None
        if by is None:
            # partial order (row order then compared as a multiset)
            cands = self.addressable(pt, kinds=("int", "str"))
            if not cands:
                return None
            t = self.rng.choice(cands)
            a = self.refarg(pt, t)
            if a is None:
                return None
            by = [dict(a=a, desc=self.rng.random() < 0.3, nulls=self.rng.choice(["first", "last"]))]
        oos = self.maybe_oos(pt, ("int", "str"))
        if oos:
            by = [dict(a=oos, desc=self.rng.random() < 0.3, nulls=None)] + by
            self.m.note("oos_in:arrange")
        return {"op": "arrange", "t": pt.id, "by": by}

    def g_slice_head(self):
        pt = self.pick_table(lambda p: p.m.order_fixed and not p.m.grouping)
        if pt is None:
            return None
        self.m.note("slice_head")
        if pt.m.n_limit:
            self.m.note("limit_after_limit")
        return {"op": "slice_head", "t": pt.id, "n": self.rng.choice([0, 1, 2, 3, 5, 8, 20]), "offset": self.rng.choice([0, 0, 0, 1, 2, 4])}

    def g_group_by(self):
        pt = self.pick_table(lambda p: len(p.m.visible) >= 1)
        if pt is None:
            return None
        T = self.m.model.toks
        # grouping by a constant column is not generated: on SQL it is dropped from GROUP BY, so an
        # empty input gives one row instead of none (C04 territory, DESIGN.md 12.3)
        vis = [t for t in pt.m.vis_toks() if T[t].kind != "const" or self.p.get("group_by_const", False)]
        if not vis:
            return None
        pref = [t for t in vis if T[t].mod or T[t].kind == "const"] or vis
        toks = self.rng.sample(pref, min(len(pref), self.rng.choice([1, 1, 2])))
        if self.rng.random() < 0.15:
            toks = self.rng.sample(vis, 1)
        add = self.rng.random() < 0.2
        if add and self.rng.random() < 0.5:
            toks = [t for t in toks if t not in pt.m.grouping]
            if not toks:
                return None
        elif add and any(t in pt.m.grouping for t in toks):
            # grouping again by a column the table is already grouped by = grouping by it once
            self.m.note("group_by_add_repeats_column")
        if self.rng.random() < 0.08:
            toks = toks + [toks[0]]  # the same column listed twice
            self.m.note("group_by_column_twice")
        cols = []
        for t in toks:
            a = self.maybe_oos(pt, ("int", "str")) or self.refarg(pt, t, allow_str=True)
            if a is None:
                return None
            cols.append(a)
        return {"op": "group_by", "t": pt.id, "cols": cols, "add": add}

    def g_ungroup(self):
        pt = self.pick_table(lambda p: bool(p.m.grouping))
        if pt is None:
            return None
        return {"op": "ungroup", "t": pt.id}

    def g_summarize(self):
        pt = self.pick_table(lambda p: bool(p.m.grouping)) if self.rng.random() < 0.8 else self.pick_table()
        if pt is None:
            return None
        rng = self.rng
        cols = []
        used = set()
        for _ in range(rng.choice([1, 1, 2])):
            rec = self.g_exprrec(pt, self.p.get("summarize_kinds", {"agg": 1}))
            if rec is None or X.expr_ftype(rec, self.m.expr_recs) != "agg":
                continue
            if rec["e"] == "agg":
                rec.pop("pb", None)
            name = self.fresh_name()
            r = rng.random()
            gnames = [pt.m.name_of_tok(t) for t in pt.m.grouping if pt.m.name_of_tok(t)]
            if r < self.p.get("p_summarize_overwrite_group", 0.1) and gnames:
                name = rng.choice(gnames)
                self.m.note("summarize_overwrites_grouping_col")
            elif r < 0.3 and pt.m.visible:
                name = rng.choice(pt.m.names())
            if name in used:
                continue
            used.add(name)
            cols.append([name, rec])
        if not cols:
            return None
        self.m.note("summarize")
        return {"op": "summarize", "t": pt.id, "cols": cols}

    def g_alias(self):
        pt = self.pick_table()
        if pt is None:
            return None
        keep = self.rng.random() < self.p.get("p_alias_keep", 0.25)
        name = self.rng.choice([None, None, *ALIAS_NAMES])
        return {"op": "alias", "t": pt.id, "name": name, "keep": keep}

    def g_collect(self):
        pt = self.pick_table(lambda p: "polars" in p.real)
        if pt is None:
            return None
        return {"op": "collect", "t": pt.id, "keep": self.rng.random() < 0.7}

    def g_clone(self):
        pt = self.pick_table()
        return pt and {"op": "clone", "t": pt.id}

    def g_recompute(self):
        pt = self.pick_table()
        return pt and {"op": "recompute", "t": pt.id}

    def g_transfer(self):
        # new = a re-rooted copy of src (alias / collect(keep_col_refs=False) / clone), possibly with
        # select / drop / rename / filter / arrange on top (a materialisation that reorders columns)
        m = self.m
        rng = self.rng

        def src_of(p):
            return p.m.same_as if p.m.same_as in m.tables else p.m.view_src if p.m.view_src in m.tables else None

        cands = [p for p in (m.tables[t] for t in self.tables()) if src_of(p) and all(p.m.name_of_tok(t) is not None for t in p.m.grouping)]
        if not cands:
            return None
        new = rng.choice(cands)
        if new.m.same_as is not None and len(new.m.visible) >= 2 and rng.random() < 0.5 and not self.plan:
            # reorder the copy first (same names, other positions), then transfer
            src_id = new.m.same_as
            names = new.m.names()
            perm = list(names)
            rng.shuffle(perm)
            if rng.random() < 0.3 and len(perm) > 2:
                perm = perm[:-1]

            def do_transfer(i):
                nid = f"t{i - 1}"
                if nid not in m.tables or src_id not in m.tables:
                    return None
                m.note("transfer_reordered")
                return {"op": "transfer", "new": nid, "src": src_id}

            self.plan = [do_transfer]
            return {"op": "select", "t": new.id, "cols": [{"c": n} for n in perm]}
        m.note("transfer_col_references")
        return {"op": "transfer", "new": new.id, "src": src_of(new)}

    def g_cq_probe(self):
        """compile-only probe (sim/cqprobe.py): a short by-name verb chain, starting with a window
        function (mostly without `arrange`), judged by build_query on every SQL dialect"""
        m = self.m
        rng = self.rng
        T = m.model.toks
        pt = self.pick_table(lambda p: not p.m.grouping and len(p.m.visible) >= 2 and "polars" in p.real)
        if pt is None:
            return None
        names = [n for n in pt.m.names() if n not in ("w__", "m__", "e__", "cs__")]
        ints = [n for n, t in pt.m.visible if T[t].kind == "int" and n in names]
        if not ints or len(names) != len(pt.m.names()):
            return None
        chain = []
        if rng.random() < 0.85:
            w = {"v": "win", "f": rng.choice(["shift", "rown"]), "a": rng.choice(ints), "ar": rng.random() < 0.25}
            if rng.random() < 0.3:
                w["pb"] = [rng.choice(names)]
            if w["f"] == "shift":
                w["wrap"] = rng.choice([None, None, "abs", "neg", "hmax", "hmin", "floor", "exp"])
                w["fill"] = rng.random() < 0.5
            chain.append(w)
            names = names + ["w__"]
            ints = ints + ["w__"]
        for _ in range(rng.choice([0, 1, 1, 2, 2, 3])):
            if not ints:
                break
            k = rng.choice(["select", "alias", "summarize", "filter", "arrange", "slice", "mutate", "join_right", "slice", "case"])
            if k == "case" and len(ints) >= 2 and "w__" not in names and rng.random() < 0.6:
                # a hidden overwritten column, its successor of the same name and a column called like the
                # label the sub-query generates for the second of them (`<name>_1`) meet behind a sub-query
                a, o = rng.sample(ints, 2)
                if f"{a}_1" not in names:
                    chain.append({"v": "hidden_label", "a": a, "o": o, "n": rng.choice([1, 1, 2])})
                    break
            if k == "case":
                # a case expression without `otherwise` (default null), as a new column, a filter or a sort key
                chain.append({"v": "case", "a": rng.choice(ints), "c": rng.randrange(0, 4), "pos": rng.choice(["mutate", "filter", "arrange"]), "two": rng.random() < 0.4})
                if chain[-1]["pos"] == "mutate":
                    names = [n for n in names if n != "cs__"] + ["cs__"]
                    ints = [n for n in ints if n != "cs__"] + ["cs__"]
            elif k == "select":
                cols = rng.sample(names, rng.randint(1, len(names)))
                if "w__" in cols and rng.random() < 0.6:
                    cols = ["w__"] + [c for c in cols if c != "w__"]
                chain.append({"v": "select", "cols": cols})
                names = cols
                ints = [n for n in ints if n in cols]
            elif k == "alias":
                chain.append({"v": "alias"})
            elif k == "summarize":
                a = "w__" if ("w__" in ints and rng.random() < 0.6) else rng.choice(ints)
                by = [n for n in rng.sample(names, rng.choice([0, 1, 1, 2])) if n != a] if len(names) >= 2 else []
                chain.append({"v": "summarize", "a": a, "by": by})
                names = by + ["m__"]
                ints = [n for n in ints if n in by] + ["m__"]
            elif k == "filter":
                chain.append({"v": "filter", "a": rng.choice(ints), "c": rng.randrange(0, 4)})
            elif k == "arrange":
                chain.append({"v": "arrange", "a": rng.choice(names), "desc": rng.random() < 0.4, "nulls": rng.choice([None, "first", "last"])})
            elif k == "slice":
                chain.append({"v": "slice", "n": rng.choice([1, 2, 5]), "off": rng.choice([0, 1, 3])})
            elif k == "mutate":
                chain.append({"v": "mutate", "a": rng.choice(ints), "k": rng.randrange(1, 9), "name": rng.choice(["e__"] + names)})
                if chain[-1]["name"] not in names:
                    names = names + [chain[-1]["name"]]
                else:
                    names = [n for n in names if n != chain[-1]["name"]] + [chain[-1]["name"]]
                if chain[-1]["name"] not in ints:
                    ints = ints + [chain[-1]["name"]]
            elif k == "join_right":
                lp = self.pick_table(
                    lambda p: p.id != pt.id
                    and not p.m.grouping
                    and "polars" in p.real
                    and not (p.m.origins & pt.m.origins)
                    and not (set(p.m.scope) & set(pt.m.scope))
                    and any(T[t].kind == "int" for t in p.m.vis_toks())
                )
                if lp is None:
                    continue
                ln = rng.choice([n for n, t in lp.m.visible if T[t].kind == "int"])
                chain.append({"v": "join_right", "l": lp.id, "ln": ln, "rn": rng.choice(ints), "how": rng.choice(["inner", "left", "full"])})
                break
        if not chain:
            return None
        return {"op": "cq_probe", "t": pt.id, "chain": chain}

    # ---- join -------------------------------------------------------------------------
    def g_join(self):
        m = self.m
        rng = self.rng
        l = self.pick_table(lambda p: not p.m.grouping and len(p.m.visible) <= 14)
        if l is None:
            return None

        def ok_right(p):
            return (
                not p.m.grouping
                and not (p.m.origins & l.m.origins)
                and not (set(p.m.scope) & set(l.m.scope))
                and set(p.real) & set(l.real)
                and len(p.m.visible) + len(l.m.visible) <= 24
                and not join_too_big(l, p)
            )

        r = self.pick_table(ok_right)
        if r is None:
            # manufacture a joinable partner: alias of some table
            return self.g_alias()
        T = m.model.toks
        how = rng.choice(["inner", "left", "left", "full"])
        kinds = self.p.get("join_on", dict(name=2, eq=3, eqx=2, ineq=1, cross=1, multi=1))
        kind = rng.choices(list(kinds), list(kinds.values()))[0]

        def side_ref(pt, tok, side):
            a = self.refarg(pt, tok, allow_own=True)
            if a is None:
                return None
            if "c" in a:  # C.name is ambiguous in `on`; use the table's own reference
                a = {"o": a["c"]}
            if side == "r" and "o" in a:
                a = {"ro": a["o"]}
            return a

        def shared_pairs():
            out = []
            for lt in self.addressable(l, kinds=("int",), decodable=True):
                for rt in self.addressable(r, kinds=("int",), decodable=True):
                    a, b = T[lt], T[rt]
                    if a.T == 0 and b.T == 0 and a.c == b.c and len(a.offs) == 1 and len(b.offs) == 1:
                        out.append((lt, rt))
            return out

        def attr_pairs():
            out = []
            for lt in self.addressable(l, kinds=("int",), decodable=True):
                for rt in self.addressable(r, kinds=("int",), decodable=True):
                    a, b = T[lt], T[rt]
                    if a.T and b.T and a.mod == b.mod and len(a.offs) == 1 and len(b.offs) == 1:
                        out.append((lt, rt))
            return out

        on = []
        cross = False
        if kind == "cross":
            cross = rng.random() < 0.5
            if cross or rng.random() < 0.5:
                how = "inner"  # (the cross_join verb has no `how`)
            m.note("join_cross:" + how)
        elif kind == "name":
            def name_ok(n):
                a, b = l.m.tok_of_name(n), r.m.tok_of_name(n)
                if a is None or b is None or a in l.m.opaque or b in r.m.opaque:
                    return False
                ta, tb = T[a], T[b]
                return ta.kind == tb.kind == "int" and ta.T == tb.T == 0 and ta.c == tb.c and ta.offs == tb.offs and len(ta.offs) == 1

            names = [n for n in l.m.names() if name_ok(n)]
            if not names:
                return None
            on = [rng.choice(names)]
            m.note("join_on_name")
        else:
            sp = shared_pairs()
            ap = attr_pairs()

            def mk_eq():
                if not sp:
                    return None
                lt, rt = rng.choice(sp)
                a, b = side_ref(l, lt, "l"), side_ref(r, rt, "r")
                if a is None or b is None:
                    return None
                da, db = T[lt].offs[0] * W.OFF, T[rt].offs[0] * W.OFF
                if da == db == 0:
                    if rng.random() < 0.3:
                        return {"p": "eq", "a": b, "b": a}  # written right-first
                    return {"p": "eq", "a": a, "b": b}
                return {"p": "eqx", "a": a, "b": b, "da": da, "db": db}

            def mk_eqx(op=None):
                if not ap:
                    return None
                lt, rt = rng.choice(ap)
                a, b = side_ref(l, lt, "l"), side_ref(r, rt, "r")
                if a is None or b is None:
                    return None
                da = W.v(T[lt].T, T[lt].c, 0) + T[lt].offs[0] * W.OFF
                db = W.v(T[rt].T, T[rt].c, 0) + T[rt].offs[0] * W.OFF
                if op:
                    return {"p": "ineq", "op": op, "a": a, "b": b, "da": da, "db": db}
                return {"p": "eqx", "a": a, "b": b, "da": da, "db": db}

            if kind == "eq":
                p = mk_eq()
                on = [p] if p else []
            elif kind == "eqx":
                p = mk_eqx()
                on = [p] if p else []
                m.note("join_on_expression")
            elif kind == "ineq":
                p1, p2 = mk_eq(), mk_eqx(rng.choice(["<", "<=", ">", ">="]))
                on = [p for p in (p1, p2) if p]
                if len(on) < 2:
                    return None
                if how == "full":
                    how = "left"
                m.note("join_inequality")
            elif kind == "multi":
                on = []
                seen_pairs = set()
                cxm = X.MCtx(m.model, l.m, m.ref_toks, m.expr_recs, right=r.m)
                for p in rng.choice([(mk_eq(), mk_eq(), mk_eqx()), (mk_eq(), mk_eqx(), mk_eqx()), (mk_eqx(), mk_eqx())]):
                    # the same equality twice is not generated (polars refuses repeated join keys)
                    if p:
                        key = frozenset((cxm.resolve(p["a"]), cxm.resolve(p["b"])))
                        if key not in seen_pairs:
                            seen_pairs.add(key)
                            on.append(p)
                m.note("join_conjunction")
            if not on:
                return None
            if rng.random() < self.p.get("p_onesided_on", 0.2):
                # a conjunct that reads one side only (t.a == s.b, s.c >= 5): it restricts the
                # partners, it does not filter the rows of an outer join
                side = rng.choice(["l", "r", "r"])
                pt_ = l if side == "l" else r
                ints = self.addressable(pt_, kinds=("int",), decodable=True)
                if ints:
                    t_ = rng.choice(ints)
                    a = side_ref(pt_, t_, side)
                    thr = self.threshold(pt_, t_)
                    if a is not None and thr is not None:
                        op = "==" if how == "full" else rng.choice([">=", "<", "==", "!=", "==self"])
                        pr = {"p": "cmp", "op": op, "a": a, "thr": thr}
                        if op == "==" and rng.random() < 0.4:
                            pr["lf"] = True  # lit(thr) == col
                        on.append(pr)
                        m.note("join_onesided_predicate:" + how)
                        if how != "full" and rng.random() < 0.3:
                            # the one-sided predicate is the whole condition
                            on = [pr]
                            m.note("join_on_without_equality:" + how)
            if how != "full" and not cross and rng.random() < self.p.get("p_case_on", 0.08):
                # a conjunct that is no comparison at all (a boolean case expression)
                j = rng.randrange(len(on))
                if not isinstance(on[j], str):
                    on[j] = dict(on[j], wrap="case")
                    m.note("join_on_case_predicate:" + how)
        suffix = None
        if rng.random() < self.p.get("p_user_suffix", 0.15):
            suffix = rng.choice(["_s", "_r", "_B"])
            m.note("join_user_suffix")
        if how == "full" and any((not isinstance(p, str)) and p["p"] == "ineq" for p in on):
            how = "left"
        if set(l.m.names()) & set(r.m.names()):
            m.note("join_visible_collision")
        st = {"op": "join", "l": l.id, "r": r.id, "on": on, "how": how}
        if suffix:
            st["suffix"] = suffix
        if cross:
            st["cross"] = True
        m.note("join:" + how)
        return st

    def g_selfjoin(self):
        """join a table with a re-rooted copy of itself (alias / collect / clone / transfer)"""
        m = self.m
        rng = self.rng
        T = m.model.toks
        cands = [p for p in (m.tables[t] for t in self.tables()) if p.m.same_as in m.tables]
        if not cands:
            return self.g_alias()
        s_ = rng.choice(cands)
        t_ = m.tables[s_.m.same_as]
        l, r = (t_, s_) if rng.random() < 0.5 else (s_, t_)
        if rng.random() < 0.35:
            # three-way (and deeper) self-joins: join an existing join result that already contains
            # the origin with one more re-rooted copy of it
            big = [
                p
                for p in (m.tables[t] for t in self.tables())
                if p.m.n_join >= 1 and (t_.id in p.m.origins) and not (p.m.origins & s_.m.origins) and not (set(p.m.scope) & set(s_.m.scope)) and not p.m.grouping and not s_.m.grouping
            ]
            if big:
                l, r = rng.choice(big), s_
                m.note("selfjoin_three_way")
        if rng.random() < 0.3:
            # the re-rooted copy of a DERIVED table joined with an ANCESTOR of that table (e.g.
            # t >> join(t >> group_by(..) >> summarize(..) >> alias(), ...)): columns of the ancestor
            # that went out of scope below the alias must not be confused with the copy's
            anc = [
                p
                for p in (m.tables[t] for t in self.tables())
                if p.id in t_.m.origins and p.id != t_.id and not p.m.grouping and not s_.m.grouping and not (set(p.m.scope) & set(s_.m.scope)) and not (p.m.origins & s_.m.origins)
            ]
            if anc:
                l, r = rng.choice(anc), s_
                m.note("selfjoin_with_ancestor")
        if not (set(l.real) & set(r.real)) or join_too_big(l, r):
            return None
        # equality on a pair of corresponding visible int columns (same name on both sides)
        names = [
            n
            for n in l.m.names()
            if r.m.tok_of_name(n) is not None
            and T[l.m.tok_of_name(n)].kind == "int"
            and T[r.m.tok_of_name(n)].kind == "int"
            and l.m.tok_of_name(n) not in l.m.opaque
            and r.m.tok_of_name(n) not in r.m.opaque
        ]
        if not names:
            return None
        n = rng.choice(names)
        how = rng.choice(["inner", "left", "full"])
        on = [{"p": "eq", "a": {"o": n}, "b": {"ro": n}}]
        if rng.random() < 0.3:
            on = [n]
        st = {"op": "join", "l": l.id, "r": r.id, "on": on, "how": how, "selfjoin": True}
        if rng.random() < 0.3:
            st["suffix"] = "_r"
        m.note("selfjoin_generated")
        return st

    def g_union(self):
        m = self.m
        # no full join below a union: SQLite 3.40 drops the WHERE of a FULL JOIN member when the
        # compound select is itself a sub-select (engine defect, reproduced with plain sqlite3)
        l = self.pick_table(lambda p: not p.m.grouping and p.m.visible and not p.m.full_join)
        if l is None:
            return None
        names = set(l.m.names())
        # operands derived from the same table (split a table, treat the parts, put them together
        # again) share column identities: the union's columns are those of its left operand
        same_origin = self.rng.random() < self.p.get("p_union_same_origin", 0.0)

        def ok(p):
            return (
                not p.m.grouping
                and set(p.m.names()) == names
                and (p.id != l.id or same_origin)
                and (same_origin or (not (p.m.origins & l.m.origins) and not (set(p.m.scope) & set(l.m.scope))))
                and set(p.real) & set(l.real)
                and self.union_types_ok(l, p)
                and not p.m.full_join
            )

        r = self.pick_table(ok)
        if r is None:
            return None
        m.note("union")
        if (r.m.origins & l.m.origins) or (set(r.m.scope) & set(l.m.scope)):
            m.note("union_same_origin")
        return {"op": "union", "l": l.id, "r": r.id, "distinct": self.rng.random() < 0.4}

    def union_types_ok(self, l, r):
        T = self.m.model.toks
        for n in l.m.names():
            a, b = T[l.m.tok_of_name(n)], T[r.m.tok_of_name(n)]
            if (a.kind == "str") != (b.kind == "str"):
                return False
        return True

    # ---- shared objects ----------------------------------------------------------------
    def g_expr(self):
        """an expression object to be shared between later verbs"""
        m = self.m
        if len(m.exprs) >= self.p.get("max_exprs", 10):
            return None
        if not m.refs:
            return None
        # build over pooled references of one table, or over C. columns
        rng = self.rng
        if rng.random() < 0.3:
            name = rng.choice(["x", "y", "u", "id"])
            a = {"c": name}
            kind = rng.choice(["agg", "tag", "shift"])
            if kind == "agg":
                rec = {"e": "agg", "f": rng.choice(["sum", "min", "max", "count"]), "a": a}
            elif kind == "tag":
                rec = {"e": "tag", "a": a, "k": self.new_k()}
            else:
                rec = {"e": "shift", "a": a, "n": 1, "ar": [dict(a={"c": "id"}, desc=False, nulls=None)]}
            return {"op": "expr", "rec": rec}
        T = m.model.toks
        rids = [r for r, t in m.ref_toks.items() if T[t].kind == "int"]
        if not rids:
            return None
        rid = rng.choice(rids)
        a = {"r": rid}
        kind = rng.choices(["agg", "tag", "shift", "case", "arith_agg"], [5, 2, 2, 1, 2])[0]
        if kind == "agg":
            rec = {"e": "agg", "f": rng.choice(["sum", "min", "max", "count"]), "a": a}
        elif kind == "tag":
            rec = {"e": "tag", "a": a, "k": self.new_k()}
        elif kind == "arith_agg":
            rec = {"e": "arith", "a": {"e": "agg", "f": rng.choice(["min", "max", "sum"]), "a": a}, "k": rng.randrange(1, 9)}
        elif kind == "shift":
            # order by a pooled reference of a row-identifying column of the same lineage
            lin = T[m.ref_toks[rid]].lineage
            ids = [r for r, t in m.ref_toks.items() if T[t].lineage == lin and T[t].mod is None and T[t].kind == "int" and not T[t].nullable and T[t].c in (0, 7)]
            if not ids:
                return None
            rec = {"e": "shift", "a": a, "n": 1, "ar": [dict(a={"r": rng.choice(ids)}, desc=rng.random() < 0.3, nulls=None)]}
        else:
            rec = {"e": "case", "p": {"p": "isnull", "a": a, "neg": True}, "a": {"e": "tag", "a": a, "k": self.new_k()}, "b": {"e": "tag", "a": a, "k": self.new_k()}}
        return {"op": "expr", "rec": rec}

    def g_pipe(self):
        m = self.m
        if len(m.pipes) >= 6:
            return None
        rng = self.rng
        verbs = []
        name = rng.choice(["x", "y", "u"])
        new = self.fresh_name()
        f = rng.choice(["sum", "min", "max", "count"])
        verbs.append({"op": "mutate", "cols": [[new, {"e": "agg", "f": f, "a": {"c": name}}]]})
        r = rng.random()
        if r < 0.4:
            verbs.append({"op": "filter", "preds": [{"p": "isnull", "a": {"c": new}, "neg": True}]})
        elif r < 0.6:
            verbs.append({"op": "select", "cols": [{"c": "id"}, {"c": new}]})
        if m.exprs and rng.random() < 0.3:
            verbs.append({"op": "mutate", "cols": [[self.fresh_name(), {"e": "pool", "x": rng.choice(list(m.exprs))}]]})
        return {"op": "pipe", "verbs": verbs}

    def g_apply_pipe(self):
        m = self.m
        if not m.pipes:
            return None
        pt = self.pick_table()
        if pt is None:
            return None
        return {"op": "apply_pipe", "t": pt.id, "p": self.rng.choice(list(m.pipes))}

    # ---- observers / faults --------------------------------------------------------------
    def g_observe(self):
        pt = self.pick_table()
        if pt is None:
            return None
        kind = self.rng.choice(self.p.get("observe_kinds", ["export", "build_query", "repr", "lazy", "dict", "columns", "ast_repr", "expr_repr", "expr_export", "show_query"]))
        st = {"op": "observe", "t": pt.id, "kind": kind}
        if kind in ("expr_repr", "expr_export"):
            if not self.m.exprs:
                return None
            st["x"] = self.rng.choice(list(self.m.exprs))
        return st

    def g_collect_lazy(self):
        if not self.m.lazies:
            return None
        return {"op": "collect_lazy", "z": self.rng.choice(list(self.m.lazies))}

    def g_uuid_regime(self):
        return {"op": "uuid_regime", "regime": self.rng.choice(UUID_REGIMES)}

    def g_gc(self):
        return {"op": "gc"}

    def g_arm_engine(self):
        if "sqlite" not in self.m.replicas:
            return None
        return {"op": "arm_engine", "kind": self.rng.choice(["exec", "exec", "connect"]), "k": self.rng.choice([1, 1, 2])}

    def g_reject(self):
        from sim.rejects import gen_reject

        return gen_reject(self)
