"""In-process seams owned by the simulator (all reached from outside /repo).

  * identity clock: uuid.uuid1 replacement with regimes
  * SQL engine faults: SQLAlchemy event hooks raising the driver's own OperationalError
  * scan-order adversary: PRAGMA reverse_unordered_selects
  * declaration order: in-place permutation of SignatureTrie children / IMPLICIT_CONVS
  * asynchronous exception: sys.settrace line counter inside pydiverse/transform frames
"""

import random
import sqlite3
import sys
import uuid as _uuid_mod

import sim.bootstrap  # noqa: F401

_REAL_UUID1 = _uuid_mod.uuid1

UUID_REGIMES = ("counter", "descending", "random", "jumpback", "lowentropy")


class UuidClock:
    """Deterministic, collision-free replacement for uuid.uuid1()."""

    def __init__(self, seed: int, regime: str = "counter"):
        self.rng = random.Random(seed ^ 0x5EED)
        self.issued: set[int] = set()
        self.issued_hashes: set[int] = set()
        self.n = 0
        self.calls = 0
        self.segment = 1 << 20
        self.regime = regime
        self.min_int = None
        self.max_int = None
        self.switches = 0

    def switch(self, regime: str):
        assert regime in UUID_REGIMES
        self.regime = regime
        self.switches += 1
        # a "jump back" continues below everything issued so far
        if regime == "jumpback":
            self.segment = max(1, self.segment - 1 - self.rng.randrange(3))
        else:
            self.segment += 1 + self.rng.randrange(3)
        self.n = 0

    def _candidate(self) -> int:
        self.n += 1
        n = self.n
        seg = self.segment
        if self.regime in ("counter", "jumpback"):
            return (seg << 64) | n
        if self.regime == "descending":
            return (seg << 64) | ((1 << 60) - n)
        if self.regime == "random":
            return (self.rng.getrandbits(95) << 32) | (n & 0xFFFFFFFF)
        if self.regime == "lowentropy":
            # values differ only in the high bits -> collide in small hash tables
            return ((seg * 4096 + n) << 100) | 0xABCDEF
        raise AssertionError(self.regime)

    def __call__(self, node=None, clock_seq=None):
        self.calls += 1
        v = self._candidate() & ((1 << 128) - 1)
        # unique values AND unique 64-bit hashes: the library keys dicts by Col (hash = hash of the
        # UUID, == overloaded to build an expression), so a full-hash collision of two distinct
        # UUIDs - probability 2**-61 with real uuid1 values - would be an artefact of this clock
        while v in self.issued or v == 0 or hash(v) in self.issued_hashes:
            v = (v + 1) & ((1 << 128) - 1)
        self.issued.add(v)
        self.issued_hashes.add(hash(v))
        self.min_int = v if self.min_int is None else min(self.min_int, v)
        self.max_int = v if self.max_int is None else max(self.max_int, v)
        return _uuid_mod.UUID(int=v)

    def install(self):
        _uuid_mod.uuid1 = self

    @staticmethod
    def uninstall():
        _uuid_mod.uuid1 = _REAL_UUID1


# ---------------------------------------------------------------------------------------
# SQL engine faults
# ---------------------------------------------------------------------------------------


class EngineFaults:
    """Arms failures of the k-th statement / the next connect of a real SQLAlchemy engine."""

    def __init__(self, engine):
        import sqlalchemy as sqa

        self.engine = engine
        self.fail_exec_in = None  # fail the k-th statement from now (1 = next)
        self.fail_connect = False
        self.fired_exec = 0
        self.fired_connect = 0
        self.statements = 0

        @sqa.event.listens_for(engine, "before_cursor_execute")
        def _before(conn, cursor, statement, parameters, context, executemany):
            self.statements += 1
            if self.fail_exec_in is not None:
                self.fail_exec_in -= 1
                if self.fail_exec_in <= 0:
                    self.fail_exec_in = None
                    self.fired_exec += 1
                    raise sqlite3.OperationalError("database is locked (injected)")

        @sqa.event.listens_for(engine, "engine_connect")
        def _connect(conn):
            if self.fail_connect:
                self.fail_connect = False
                self.fired_connect += 1
                raise sqlite3.OperationalError("unable to open database file (injected)")

    def arm_exec(self, k: int = 1):
        self.fail_exec_in = k

    def arm_connect(self):
        self.fail_connect = True

    def disarm(self):
        self.fail_exec_in = None
        self.fail_connect = False

    @property
    def armed(self) -> bool:
        return self.fail_exec_in is not None or self.fail_connect


# ---------------------------------------------------------------------------------------
# Declaration order
# ---------------------------------------------------------------------------------------

_CANON: dict[int, list] | None = None
_CANON_CONVS = None


def _all_trie_nodes():
    from pydiverse.transform._internal.backend.table_impl import TableImpl
    from pydiverse.transform._internal.ops import ops
    from pydiverse.transform._internal.ops.op import Operator

    roots = []
    for name in sorted(vars(ops)):
        op = getattr(ops, name)
        if isinstance(op, Operator):
            roots.append(op.trie.root)

    def subclasses(c):
        out = [c]
        for s in c.__subclasses__():
            out.extend(subclasses(s))
        return out

    for cls in sorted(subclasses(TableImpl), key=lambda c: c.__qualname__):
        store = cls.__dict__.get("impl_store") or cls.impl_store
        tries = getattr(store, "impl_trie", None)
        if isinstance(tries, dict):
            for op in sorted(tries, key=lambda o: o.name):
                roots.append(tries[op].root)
    seen = set()
    nodes = []
    stack = list(reversed(roots))
    while stack:
        nd = stack.pop()
        if id(nd) in seen:
            continue
        seen.add(id(nd))
        nodes.append(nd)
        for ch in nd.children.values():
            stack.append(ch)
    return nodes


def record_canonical_order():
    """Remember import-time insertion orders once per interpreter."""
    global _CANON, _CANON_CONVS
    if _CANON is not None:
        return
    from pydiverse.transform._internal.tree import types as T

    nodes = _all_trie_nodes()
    _CANON = {id(nd): (nd, list(nd.children.items())) for nd in nodes}
    _CANON_CONVS = [(k, list(v.items())) for k, v in T.IMPLICIT_CONVS.items()]


def permute_declaration_order(seed: int | None):
    """Permute (from the canonical order) the iteration order of every trie node's children
    and of IMPLICIT_CONVS. seed None/0 restores the canonical order."""
    from pydiverse.transform._internal.tree import types as T

    record_canonical_order()
    rng = random.Random(seed) if seed else None
    n_perm = 0
    for _, (nd, items) in _CANON.items():
        items = list(items)
        if rng is not None and len(items) > 1:
            rng.shuffle(items)
            n_perm += 1
        nd.children.clear()
        for k, v in items:
            nd.children[k] = v
    convs = list(_CANON_CONVS)
    if rng is not None:
        rng.shuffle(convs)
    T.IMPLICIT_CONVS.clear()
    for k, inner in convs:
        inner = list(inner)
        if rng is not None:
            rng.shuffle(inner)
        T.IMPLICIT_CONVS[k] = dict(inner)
    return n_perm


# ---------------------------------------------------------------------------------------
# Asynchronous exception
# ---------------------------------------------------------------------------------------


class SimInterrupt(BaseException):
    """Stands for KeyboardInterrupt landing at an arbitrary line boundary."""


class Interrupter:
    """Counts 'line' events in frames under pydiverse/transform and raises at the k-th."""

    MARK = "pydiverse/transform"

    def __init__(self):
        self.count = 0
        self.fire_at = None
        self.fired_in = None
        self.active = False

    def _local(self, frame, event, arg):
        if event == "line" and self.active:
            self.count += 1
            if self.fire_at is not None and self.count >= self.fire_at:
                self.fire_at = None
                self.fired_in = (frame.f_code.co_filename.rsplit("/", 1)[-1], frame.f_code.co_name)
                raise SimInterrupt()
        return self._local

    def _global(self, frame, event, arg):
        if not self.active:
            return None
        if self.MARK in frame.f_code.co_filename:
            return self._local
        return None

    def run(self, fn, fire_at: int | None):
        """Run fn() counting line events; raise SimInterrupt at line event `fire_at`."""
        self.count = 0
        self.fire_at = fire_at
        self.fired_in = None
        self.active = True
        old = sys.gettrace()
        sys.settrace(self._global)
        try:
            return fn()
        finally:
            self.active = False
            sys.settrace(old)
