"""Compile-only probes (C19, profile `sql`).

A probe takes one pool table and applies a short chain of verbs that is addressed by column
*names* only, on every SQL replica (SQLite, and the compile-only PostgreSQL / SQL Server
replicas), then calls `build_query` twice.  Nothing is exported and nothing enters the pool, so
the chain may contain what the data oracles cannot judge (window functions without `arrange`,
whose values depend on the scan order).  The Polars replica runs the same verbs (lazily, no
export) to establish that the pipeline is an *accepted* one.

chain item     {"v": "win", "f": "shift"|"rown", "a": name, "pb": [name], "ar": bool, "wrap": fn|None, "fill": bool}
               {"v": "mutate", "a": name, "k": int}
               {"v": "select", "cols": [name]}
               {"v": "alias"}
               {"v": "summarize", "a": name, "by": [name]}
               {"v": "filter", "a": name, "c": int}
               {"v": "case", "a": name, "c": int, "pos": "mutate"|"filter"|"arrange", "two": bool}   (no `otherwise`)
               {"v": "hidden_label", "a": name, "o": name, "n": 1|2}   (hidden column + successor + column named like the sub-query label)
               {"v": "arrange", "a": name, "desc": bool, "nulls": None|"first"|"last"}
               {"v": "slice", "n": int, "off": int}
               {"v": "join_right", "l": table id, "ln": name, "rn": name, "how": str}
"""

import sim.bootstrap  # noqa: F401
import pydiverse.transform as pdt
from pydiverse.transform import C
from sim.machine import Skip

W_NAME = "w__"
M_NAME = "m__"


def _sha(s):
    import hashlib

    return hashlib.sha1(s.encode()).hexdigest()[:16]


class CqProbeMixin:
    def cq_apply(self, t, item, rep, others):
        v = item["v"]
        if v == "win":
            kw = {}
            if item.get("pb"):
                kw["partition_by"] = [C[n] for n in item["pb"]]
            if item.get("ar"):
                kw["arrange"] = [C[item["a"]]]
            if item["f"] == "shift":
                x = C[item["a"]]
                w = item.get("wrap")
                # the shifted value is itself computed by a function (the SQL type of the compiled
                # expression is then whatever the function call declares)
                if w == "abs":
                    x = x.abs()
                elif w == "neg":
                    x = -x
                elif w == "hmax":
                    x = pdt.max(x, 1)
                elif w == "hmin":
                    x = pdt.min(x, 1)
                elif w == "floor":
                    x = x.cast(pdt.Float64()).floor()
                elif w == "exp":
                    x = x.cast(pdt.Float64()).exp()
                if item.get("fill"):
                    e = x.shift(1, 0.0 if w in ("floor", "exp") else 0, **kw)
                else:
                    e = x.shift(1, **kw)
            else:
                e = pdt.row_number(**kw)
            return t >> pdt.mutate(**{W_NAME: e})
        if v == "mutate":
            return t >> pdt.mutate(**{item.get("name", "e__"): C[item["a"]] + item["k"]})
        if v == "hidden_label":
            a, lab = item["a"], f"{item['a']}_{item['n']}"
            t1 = t >> pdt.rename({item["o"]: lab})
            u = t1 >> pdt.mutate(**{a: t1[a] + 1})
            return (
                u
                >> pdt.mutate(**{W_NAME: pdt.row_number(arrange=[t1[a]])})
                >> pdt.alias(keep_col_refs=True)
                >> pdt.filter(C[W_NAME] < 3)
                >> pdt.mutate(cs__=t1[a] + u[a] + t1[lab])
            )
        if v == "case":
            a = C[item["a"]]
            if item["pos"] == "filter":
                e = pdt.when(a > item["c"]).then(True)
                if item.get("two"):
                    e = e.when(a < -item["c"]).then(False)
                return t >> pdt.filter(e)
            e = pdt.when(a > item["c"]).then(a)
            if item.get("two"):
                e = e.when(a < -item["c"]).then(0)
            if item["pos"] == "arrange":
                return t >> pdt.arrange(e)
            return t >> pdt.mutate(cs__=e)
        if v == "select":
            return t >> pdt.select(*[C[n] for n in item["cols"]])
        if v == "alias":
            return t >> pdt.alias()
        if v == "summarize":
            if item.get("by"):
                t = t >> pdt.group_by(*[C[n] for n in item["by"]])
            return t >> pdt.summarize(**{M_NAME: C[item["a"]].max()})
        if v == "filter":
            return t >> pdt.filter(C[item["a"]] > item["c"])
        if v == "arrange":
            o = C[item["a"]]
            if item.get("desc"):
                o = o.descending()
            if item.get("nulls") == "first":
                o = o.nulls_first()
            elif item.get("nulls") == "last":
                o = o.nulls_last()
            return t >> pdt.arrange(o)
        if v == "slice":
            return t >> pdt.slice_head(item["n"], offset=item["off"])
        if v == "join_right":
            lt = others.get(item["l"])
            if lt is None:
                raise Skip("left table has no such replica")
            return lt >> pdt.join(t, lt[item["ln"]] == t[item["rn"]], item["how"])
        raise AssertionError(item)

    def cq_chain(self, t, chain, rep, others):
        """-> ("ok", table) | ("refused", cls) | ("exc", cls, exc, item)"""
        for item in chain:
            res = self.call(lambda t=t, item=item: self.cq_apply(t, item, rep, others))
            if res[0] == "exc" and res[1] == "SubqueryError" and rep != "polars":
                res = self.call(lambda t=t, item=item: self.cq_apply(t >> pdt.alias(), item, rep, others))
            if res[0] == "exc":
                if res[1] in ("SubqueryError", "NotSupportedError"):
                    return ("refused", res[1])
                return ("exc", res[1], res[2], item)
            t = res[1]
        return ("ok", t)

    def op_cq_probe(self, step):
        pt = self.T(step["t"])
        chain = step["chain"]
        tail = "/".join(i["v"] + (":" + i["f"] if i["v"] == "win" else "") for i in chain)
        left_ids = [i["l"] for i in chain if i["v"] == "join_right"]
        lefts = {lid: self.tables.get(lid) for lid in left_ids}
        if any(p is None for p in lefts.values()):
            raise Skip("left table gone")

        def others(rep):
            out = {}
            for lid, p in lefts.items():
                tt = p.real.get(rep) if rep in ("polars", "sqlite") else p.cq.get(rep)
                if tt is not None:
                    out[lid] = tt
            return out

        # acceptance: the verbs are accepted on the Polars replica (built lazily, never exported)
        if "polars" not in pt.real:
            raise Skip("no polars replica")
        acc = self.cq_chain(pt.real["polars"], chain, "polars", others("polars"))
        if acc[0] != "ok":
            self.note("cq_probe_not_accepted")
            self.emit(step, "not_accepted:" + acc[1])
            return
        self.note("cq_probe")
        for i in chain:
            self.note("cq_probe:" + i["v"] + (":" + i["f"] + ("" if i.get("ar") else ":noarrange") if i["v"] == "win" else ""))
        targets = dict(pt.cq)
        if "sqlite" in pt.real:
            targets["sqlite"] = pt.real["sqlite"]
        out = {}
        for rep in sorted(targets):
            try:
                res = self.cq_chain(targets[rep], chain, rep, others(rep))
            except Skip:
                continue
            self.stats[f"cq_probe:{rep}:{res[0]}"] += 1
            if res[0] == "refused":
                out[rep] = res[1]
                continue
            if res[0] == "exc":
                self.violate(
                    "C19",
                    "O19.x",
                    f"`{res[3]['v']}` accepted on polars raised {res[1]} on the {rep} dialect (probe {tail}): {str(res[2])[:160]}",
                    rep=rep,
                    cls=res[1],
                    op="cq_probe",
                    tail=tail,
                )
            t = res[1]
            r1 = self.call(lambda t=t: t >> pdt.build_query())
            r2 = self.call(lambda t=t: t >> pdt.build_query())
            self.stats["queries_built"] += 2
            self.stats[f"queries:{rep}"] += 1
            if r1[0] != "ok":
                cls = r1[1]
                self.stats[f"build_query_exc:{rep}:{cls}"] += 1
                if cls in ("NotSupportedError", "SubqueryError"):
                    out[rep] = cls
                    continue
                self.violate("C19", "O19.1", f"build_query on the {rep} dialect raised {cls} (probe {tail}): {str(r1[2])[:200]}", rep=rep, cls=cls, op="cq_probe", tail=tail, site=self.exc_site(r1[2]))
            q = r1[1]
            if not isinstance(q, str) or not q.lstrip().upper().startswith(("SELECT", "WITH")):
                self.violate("C19", "O19.1", f"build_query on {rep} returned {str(q)[:80]!r}: not one SELECT statement", rep=rep, op="cq_probe", kind="not_select")
            if ";" in self.strip_sql_literals(q):
                self.violate("C19", "O19.1", f"build_query on {rep} returned more than one statement", rep=rep, op="cq_probe", kind="semicolon")
            if r2[0] != "ok" or r2[1] != q:
                kind = "anon_numbering_only" if (r2[0] == "ok" and self.norm_anon(r2[1]) == self.norm_anon(q)) else "text"
                self.violate("C19", "O19.2", f"two build_query calls on one table return different text on {rep} (probe {tail})", rep=rep, kind=kind, op="cq_probe", tail=tail)
            out[rep] = _sha(self.norm_anon(q))
        self.emit(step, "ok", out)
