"""Reference model: "same interface, trivial inside".

A table is a list of (name, token) pairs plus a scope; a token says which source column a
column's cells must decode to.  The verb rules are transcriptions of documented sentences
(DESIGN.md section 3.3).  Nothing here imports the library under test.
"""

import copy
import dataclasses

from sim import world as W


@dataclasses.dataclass
class Tok:
    id: str
    kind: str  # 'int' | 'str' | 'opaque' | 'const'
    T: int | None = None
    c: int | None = None
    offs: tuple = (0,)  # allowed tag offsets (units of 10**7)
    mod: int | None = None  # row number known modulo this only
    lineage: str | None = None  # row lineage (None: not row aligned)
    nullable: bool = False
    const: object = None

    def derive(self, new_id: str, **kw) -> "Tok":
        t = copy.copy(self)
        t.id = new_id
        for k, v in kw.items():
            setattr(t, k, v)
        return t

    def sig(self):
        return (self.kind, self.T, self.c, self.offs, self.mod, self.lineage, self.nullable, self.const)


@dataclasses.dataclass
class MTable:
    id: str
    name: str | None
    visible: list  # [(name, tokid)]
    scope: list  # [tokid] ordered, includes hidden
    grouping: list  # [tokid]
    origins: frozenset  # ids of every table node this one is derived from (incl. itself)
    opaque: frozenset = frozenset()  # tokens whose cells cannot be decoded in this table
    padded: frozenset = frozenset()  # lineages that may be entirely null in a row
    rowid: tuple | None = ()  # tokens that jointly identify a row (None: unknown)
    order_fixed: bool = False  # row order of export is defined
    # C08 summary (conservative)
    n_limit: int = 0
    n_summarize: int = 0
    n_window: int = 0  # window / aggregate-as-window mutates
    n_join: int = 0
    n_union: int = 0
    n_alias: int = 0
    filtered: bool = False
    verbs: tuple = ()  # verb kinds applied since the source(s)
    same_as: str | None = None  # id of the table whose visible data this one reproduces (re-rooting only)
    # columns that depend on an aggregate of a `summarize` without grouping in the current SELECT
    # (None: there is no such summarize); used to classify C08 findings, not to judge
    ung: frozenset | None = None
    full_join: bool = False  # the pipeline contains a full join (generator-side restriction, see g_union)
    # a re-rooted copy (alias / collect(keep_col_refs=False) / clone) and what is derived from it by
    # select / drop / rename / filter / arrange is a *view* of `view_src`: view_of maps each of its
    # tokens to the token of view_src whose data it carries (used by transfer_col_references)
    view_src: str | None = None
    view_of: dict | None = None

    def names(self):
        return [n for n, _ in self.visible]

    def vis_toks(self):
        return [t for _, t in self.visible]

    def tok_of_name(self, name):
        for n, t in self.visible:
            if n == name:
                return t
        return None

    def name_of_tok(self, tok):
        for n, t in self.visible:
            if t == tok:
                return n
        return None

    def hidden(self):
        vis = set(self.vis_toks())
        return [t for t in self.scope if t not in vis]

    def child(self, new_id: str, verb: str, **kw) -> "MTable":
        m = copy.copy(self)
        m.id = new_id
        m.origins = self.origins | {new_id}
        m.verbs = self.verbs + (verb,)
        m.same_as = None
        if verb not in ("select", "rename", "filter", "arrange"):
            m.view_src = None
            m.view_of = None
        for k, v in kw.items():
            setattr(m, k, v)
        return m

    def digest(self):
        return (
            self.id,
            self.name,
            tuple(self.visible),
            tuple(self.scope),
            tuple(self.grouping),
            tuple(sorted(self.opaque)),
            tuple(sorted(self.padded)),
            self.rowid,
            self.order_fixed,
        )

    def abstract_state(self):
        """Model-state abstraction used for the 'states reached' measure."""
        vis = set(self.vis_toks())
        hidden_names_reused = 0
        return (
            min(len(self.visible), 12),
            min(len(self.scope) - len(vis), 6),
            min(len(self.grouping), 3),
            min(len(self.origins), 6),
            min(self.n_limit, 2),
            min(self.n_summarize, 2),
            min(self.n_window, 2),
            min(self.n_join, 2),
            min(self.n_union, 1),
            min(self.n_alias, 2),
            self.filtered,
            self.order_fixed,
            hidden_names_reused,
        )


class Model:
    """Token store + verb rules."""

    def __init__(self):
        self.toks: dict[str, Tok] = {}
        self.n_lineage = 0

    def new_lineage(self, hint: str) -> str:
        self.n_lineage += 1
        return f"L{hint}"

    def add(self, tok: Tok) -> str:
        assert tok.id not in self.toks, tok.id
        self.toks[tok.id] = tok
        return tok.id

    # ---- sources -------------------------------------------------------------------
    def src(self, tid: str, tname: str) -> MTable:
        lin = f"L{tid}"
        vis = []
        for j, cn in enumerate(W.table_columns(tname)):
            sp = W.col_spec(tname, cn)
            tok = Tok(
                id=f"{tid}.{j}",
                kind="str" if sp["str"] else "int",
                T=0 if sp["shared"] else W.TABLES[tname],
                c=sp["c"],
                offs=(0,),
                mod=sp["mod"],
                lineage=lin,
                nullable=sp["nullable"],
            )
            self.add(tok)
            vis.append((cn, tok.id))
        id_tok = vis[0][1]
        return MTable(
            id=tid,
            name=tname,
            visible=vis,
            scope=[t for _, t in vis],
            grouping=[],
            origins=frozenset({tid}),
            rowid=(id_tok,),
            verbs=("src",),
        )

    # ---- single-table verbs ----------------------------------------------------------
    def select(self, m: MTable, new_id: str, toks: list) -> MTable:
        names = {t: m.name_of_tok(t) for t in toks}
        return m.child(new_id, "select", visible=[(names[t], t) for t in toks])

    def rename(self, m: MTable, new_id: str, mapping: dict) -> MTable:
        """mapping: tokid -> new name"""
        return m.child(new_id, "rename", visible=[(mapping.get(t, n), t) for n, t in m.visible])

    def mutate(self, m: MTable, new_id: str, items: list, *, window: bool) -> MTable:
        """items: [(name, Tok)] new tokens (already constructed, ids unique)"""
        visible = list(m.visible)
        scope = list(m.scope)
        opaque = set(m.opaque)
        for name, tok in items:
            self.add(tok)
            visible = [(n, t) for n, t in visible if n != name] + [(name, tok.id)]
            scope.append(tok.id)
            if tok.kind == "opaque":
                opaque.add(tok.id)
        return m.child(
            new_id,
            "mutate_w" if window else "mutate",
            visible=visible,
            scope=scope,
            opaque=frozenset(opaque),
            n_window=m.n_window + (1 if window else 0),
        )

    def filter(self, m: MTable, new_id: str) -> MTable:
        return m.child(new_id, "filter", filtered=True)

    def arrange(self, m: MTable, new_id: str, total: bool) -> MTable:
        return m.child(new_id, "arrange", order_fixed=total)

    def slice_head(self, m: MTable, new_id: str) -> MTable:
        return m.child(new_id, "slice_head", n_limit=m.n_limit + 1)

    def group_by(self, m: MTable, new_id: str, toks: list, add: bool) -> MTable:
        g = list(m.grouping) if add else []
        for t in toks:
            if t not in g:
                g.append(t)
        return m.child(new_id, "group_by", grouping=g)

    def ungroup(self, m: MTable, new_id: str) -> MTable:
        return m.child(new_id, "ungroup", grouping=[])

    def summarize(self, m: MTable, new_id: str, items: list) -> MTable:
        new_names = {n for n, _ in items}
        keys = [(m.name_of_tok(t), t) for t in m.grouping if m.name_of_tok(t) not in new_names]
        visible = list(keys)
        opaque = {t for t in m.opaque if t in {k for _, k in keys}}
        for name, tok in items:
            self.add(tok)
            visible.append((name, tok.id))
            if tok.kind == "opaque":
                opaque.add(tok.id)
        # the rows are identified by the (original) grouping tokens that are still in scope
        rowid = tuple(t for _, t in keys) if len(keys) == len(m.grouping) else None
        return m.child(
            new_id,
            "summarize",
            visible=visible,
            scope=[t for _, t in visible],
            grouping=[],
            opaque=frozenset(opaque),
            rowid=rowid,
            order_fixed=False,
            n_summarize=m.n_summarize + 1,
            ung=frozenset(tok.id for _, tok in items) if not m.grouping else None,
        )

    # ---- two-table verbs -------------------------------------------------------------
    def join(self, l: MTable, r: MTable, new_id: str, right_names: list, how: str) -> MTable:
        visible = list(l.visible) + [(nn, t) for nn, (_, t) in zip(right_names, r.visible, strict=True)]
        scope = list(l.scope) + [t for t in r.scope if t not in set(l.scope)]
        padded = set(l.padded) | set(r.padded)
        if how in ("left", "full"):
            padded |= {self.toks[t].lineage for t in r.scope if self.toks[t].lineage}
        if how == "full":
            padded |= {self.toks[t].lineage for t in l.scope if self.toks[t].lineage}
        rowid = None if (l.rowid is None or r.rowid is None) else tuple(l.rowid) + tuple(r.rowid)
        m = l.child(
            new_id,
            "join",
            visible=visible,
            scope=scope,
            opaque=l.opaque | r.opaque,
            padded=frozenset(padded),
            rowid=rowid,
            order_fixed=False,
            n_join=l.n_join + r.n_join + 1,
            n_limit=0,
            n_summarize=0,
            ung=None,
            full_join=l.full_join or r.full_join or how == "full",
        )
        m.origins = l.origins | r.origins | {new_id}
        m.verbs = l.verbs + ("join",)
        return m

    def union(self, l: MTable, r: MTable, new_id: str) -> MTable:
        vis = list(l.visible)
        m = l.child(
            new_id,
            "union",
            visible=vis,
            scope=[t for _, t in vis],
            opaque=frozenset(t for _, t in vis),
            rowid=None,
            order_fixed=False,
            n_union=l.n_union + r.n_union + 1,
            n_limit=0,
            n_summarize=0,
            ung=None,
            full_join=l.full_join or r.full_join,
        )
        m.origins = l.origins | r.origins | {new_id}
        return m

    # ---- re-rooting ------------------------------------------------------------------
    def _fresh(self, m: MTable, new_id: str, toks: list) -> dict:
        """fresh tokens 1:1 for `toks`; lineages are re-issued consistently."""
        lin_map = {}
        mp = {}
        for j, t in enumerate(toks):
            old = self.toks[t]
            lin = old.lineage
            if lin is not None:
                lin = lin_map.setdefault(lin, f"{lin}>{new_id}")
            nt = old.derive(f"{new_id}.{j}", lineage=lin)
            self.add(nt)
            mp[t] = nt.id
        return mp, lin_map

    def alias(self, m: MTable, new_id: str, name: str | None, keep: bool) -> MTable:
        nm = name if name is not None else m.name
        if keep:
            return m.child(new_id, "alias_keep", name=nm, n_alias=m.n_alias + 1, same_as=m.id)
        mp, lin_map = self._fresh(m, new_id, m.scope)
        res = m.child(
            new_id,
            "alias",
            name=nm,
            visible=[(n, mp[t]) for n, t in m.visible],
            scope=[mp[t] for t in m.scope],
            grouping=[mp[t] for t in m.grouping],
            opaque=frozenset(mp[t] for t in m.opaque if t in mp),
            padded=frozenset(lin_map.get(p, p) for p in m.padded),
            rowid=None if m.rowid is None else tuple(mp[t] for t in m.rowid if t in mp) if all(t in mp for t in m.rowid) else None,
            n_alias=m.n_alias + 1,
            order_fixed=False,
            same_as=m.id,
            view_src=m.id,
            view_of={v: k for k, v in mp.items()},
            # an alias alone does not start a new SELECT: the summarize level persists
            ung=None if m.ung is None else frozenset(mp[t] for t in m.ung if t in mp),
        )
        res.origins = frozenset({new_id})
        return res

    def collect(self, m: MTable, new_id: str, keep: bool) -> MTable:
        vis_toks = m.vis_toks()
        if keep:
            res = m.child(
                new_id,
                "collect",
                scope=list(vis_toks),
                grouping=[t for t in m.grouping if t in set(vis_toks)],  # only visible columns are kept
                opaque=frozenset(t for t in m.opaque if t in set(vis_toks)),
                rowid=m.rowid if (m.rowid is not None and all(t in set(vis_toks) for t in m.rowid)) else None,
                same_as=m.id,
            )
            return res
        mp, lin_map = self._fresh(m, new_id, vis_toks)
        res = m.child(
            new_id,
            "collect_fresh",
            name=m.name,  # the exported frame carries the table name and Table(df) picks it up
            visible=[(n, mp[t]) for n, t in m.visible],
            scope=[mp[t] for t in vis_toks],
            grouping=[mp[t] for t in m.grouping if t in mp],  # the grouping state survives collect (visible columns)
            opaque=frozenset(mp[t] for t in m.opaque if t in mp),
            padded=frozenset(lin_map.get(p, p) for p in m.padded),
            rowid=tuple(mp[t] for t in m.rowid) if (m.rowid is not None and all(t in mp for t in m.rowid)) else None,
            same_as=m.id,
            view_src=m.id,
            view_of={v: k for k, v in mp.items()},
        )
        res.origins = frozenset({new_id})
        return res

    def clone_reroot(self, m: MTable, new_id: str) -> MTable:
        """Table(t._ast.clone()): what every export does. Fresh identities for everything."""
        mp, lin_map = self._fresh(m, new_id, m.scope)
        res = m.child(
            new_id,
            "clone",
            visible=[(n, mp[t]) for n, t in m.visible],
            scope=[mp[t] for t in m.scope],
            grouping=[mp[t] for t in m.grouping],
            opaque=frozenset(mp[t] for t in m.opaque if t in mp),
            padded=frozenset(lin_map.get(p, p) for p in m.padded),
            rowid=None if m.rowid is None else tuple(mp[t] for t in m.rowid),
            same_as=m.id,
            view_src=m.id,
            view_of={v: k for k, v in mp.items()},
        )
        res.origins = frozenset({new_id})
        return res

    def transfer(self, new: MTable, src: MTable, new_id: str) -> MTable:
        """transfer_col_references(new, src): data of `new`, references of `src` (by name)."""
        vis = [(n, src.tok_of_name(n)) for n, _ in new.visible]
        vt = {t for _, t in vis}
        view = new.view_of if new.view_src == src.id else None
        same = view is not None
        # the reference of `src` found under the name n now denotes the data of new's column n: it
        # can be decoded as src's token only if that column is a copy of exactly that token
        faithful = {ts for (_, tn), (_, ts) in zip(new.visible, vis, strict=True) if same and view.get(tn) == ts and tn not in new.opaque}
        res = new.child(
            new_id,
            "transfer",
            visible=vis,
            scope=[t for _, t in vis],
            grouping=[src.tok_of_name(new.name_of_tok(t)) for t in new.grouping],
            opaque=frozenset(t for t in vt if t in src.opaque or t not in faithful),
            padded=src.padded if same else frozenset(),
            rowid=(src.rowid if (same and src.rowid is not None and all(t in faithful for t in src.rowid)) else None),
        )
        # carries the column identities of `src`: derived from it for the purpose of join validation
        res.origins = frozenset({new_id}) | src.origins
        return res
