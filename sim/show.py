"""python sim/show.py <profile> <seed> [tier] : run one seed and print its steps + violation"""
import sys, json
sys.path.insert(0, "/verif")
import sim.bootstrap
from sim.hist import run_cfg
from sim.profiles import make_cfg
prof, s = sys.argv[1], int(sys.argv[2])
tier = sys.argv[3] if len(sys.argv) > 3 else "quick"
cfg = make_cfg(s, prof, tier)
r = run_cfg(cfg)
print({k: v for k, v in r["cfg"].items() if k != "rows"}, {k: len(v) for k, v in cfg["rows"].items()})
for st, lg in zip(r["steps"], r["log"]):
    print(json.dumps(st), "=>", json.loads(lg)["out"])
print("VIOL", json.dumps(r["violation"], indent=1))
print(r["harness_error"] or "")
print(r["stats"])
