"""Known findings: genuine defects of the library that were recorded instead of repaired.
The file is committed and never written at run time."""

import json
import os

PATH = os.path.join(os.path.dirname(os.path.dirname(os.path.abspath(__file__))), "known_findings.json")


def load_findings():
    if not os.path.exists(PATH):
        return []
    return json.load(open(PATH))["findings"]


def match_finding(findings, v):
    """-> id of the open finding that lists exactly this violation, else None.
    Matching is on the specific call shape: property, oracle and every listed feature."""
    for f in findings:
        if f.get("status") != "open":
            continue
        m = f["match"]
        if f["property"] != v["property"] or m.get("oracle") != v["oracle"]:
            continue
        if m.get("op") is not None and m["op"] != v.get("op"):
            continue
        feats = v.get("features", {})
        if all(feats.get(k) == val for k, val in m.get("features", {}).items()):
            return f["id"]
    return None
