"""World: attributable source data on the executable back ends.

Every cell value encodes where it came from:  v(T, c, r) = T*10**6 + c*10**4 + r
(T table number, c column number, r row number).  Shared key columns use T = 0 so that
equality joins between different tables can match.
"""

import sqlite3

import sim.bootstrap  # noqa: F401
import polars as pl
import sqlalchemy as sqa
from sqlalchemy.pool import StaticPool

import pydiverse.transform as pdt
from sim.seams import EngineFaults

# "A_1": a real table whose name looks like the alias the SQL back end gives to the second
# occurrence of "A" in a query
TABLES = {"A": 1, "B": 2, "D": 3, "A_1": 4}
OFF = 10**7  # one tag unit

# name -> (column number, kind)
#   kind: "row"  value identifies the row            (r)
#         "mod"  value identifies the row modulo 3   (r % 3)
#   shared: T = 0 (value does not name the table)
#   nullable: None where r % 4 == 0
COLS = {
    "id": dict(c=0, mod=None, shared=False, nullable=False, str=False),
    "x": dict(c=1, mod=None, shared=False, nullable=False, str=False),
    "y": dict(c=2, mod=None, shared=False, nullable=False, str=False),
    "g": dict(c=3, mod=3, shared=False, nullable=False, str=False),
    "n": dict(c=4, mod=None, shared=False, nullable=True, str=False),
    "s": dict(c=5, mod=None, shared=False, nullable=False, str=True),
    "u": dict(c=7, mod=None, shared=True, nullable=False, str=False),
    "k": dict(c=8, mod=3, shared=True, nullable=False, str=False),
    "kn": dict(c=9, mod=3, shared=True, nullable=True, str=False),
}
SPECIFIC = {"A": "a1", "B": "b1", "D": "d1", "A_1": "e1"}  # column number 6
COL_ORDER = ["id", "u", "k", "kn", "x", "y", "g", "n", "s"]


def v(T: int, c: int, r: int) -> int:
    return T * 10**6 + c * 10**4 + r


def col_spec(tname: str, cname: str) -> dict:
    if cname == SPECIFIC[tname]:
        return dict(c=6, mod=None, shared=False, nullable=False, str=False)
    return COLS[cname]


def cell(tname: str, cname: str, r: int):
    sp = col_spec(tname, cname)
    T = 0 if sp["shared"] else TABLES[tname]
    if sp["nullable"] and r % 4 == 0:
        return None
    rr = r % sp["mod"] if sp["mod"] else r
    if sp["str"]:
        return f"T{T}c{sp['c']}r{rr}"
    return v(T, sp["c"], rr)


def decode(val: int):
    """-> (offset_units, T, c, r)"""
    off, rem = divmod(val, OFF)
    T, rem = divmod(rem, 10**6)
    c, r = divmod(rem, 10**4)
    return off, T, c, r


def decode_str(val: str):
    # "T{T}c{c}r{r}"
    try:
        t, rest = val[1:].split("c", 1)
        c, r = rest.split("r", 1)
        return 0, int(t), int(c), int(r)
    except Exception:
        return None


def table_columns(tname: str) -> list[str]:
    return COL_ORDER + [SPECIFIC[tname]]


def make_frame(tname: str, rows: list[int]) -> pl.DataFrame:
    """rows: the row numbers r in physical order."""
    data = {}
    for cn in table_columns(tname):
        vals = [cell(tname, cn, r) for r in rows]
        data[cn] = pl.Series(cn, vals, dtype=pl.String if col_spec(tname, cn)["str"] else pl.Int64)
    return pl.DataFrame(data)


class World:
    """Source frames + one real in-memory SQLite database behind a real SQLAlchemy engine."""

    def __init__(self, rows: dict[str, list[int]], *, reverse_unordered: bool = False, with_sql: bool = True):
        self.rows = rows
        self.frames = {t: make_frame(t, rows[t]) for t in TABLES}
        self.with_sql = with_sql
        self.engine = None
        self.faults = None
        self.n_src = 0
        if with_sql:
            self.raw = sqlite3.connect(":memory:", check_same_thread=False)
            self.engine = sqa.create_engine("sqlite://", creator=lambda: self.raw, poolclass=StaticPool)
            md = sqa.MetaData()
            self.sqa_tables = {}
            for t in TABLES:
                cols = [
                    sqa.Column(cn, sqa.String if col_spec(t, cn)["str"] else sqa.BigInteger)
                    for cn in table_columns(t)
                ]
                self.sqa_tables[t] = sqa.Table(t, md, *cols)
            md.create_all(self.engine)
            with self.engine.begin() as conn:
                for t in TABLES:
                    recs = self.frames[t].to_dicts()
                    if recs:
                        conn.execute(self.sqa_tables[t].insert(), recs)
                if reverse_unordered:
                    conn.exec_driver_sql("PRAGMA reverse_unordered_selects=ON")
            self.faults = EngineFaults(self.engine)

    def src(self, tname: str, backend: str):
        self.n_src += 1
        if backend == "polars":
            return pdt.Table(self.frames[tname], name=tname)
        if backend in ("postgres", "mssql"):
            return pdt.Table(self.dialect_table(tname, backend), pdt.SqlAlchemy(self.dialect_engine(backend)))
        assert backend == "sqlite"
        return pdt.Table(tname, pdt.SqlAlchemy(self.engine))

    # compile-only dialects: a real Engine whose .dialect is SQLAlchemy's real PGDialect /
    # MSDialect, bound to sqa.Table metadata, never connected
    _dialect_engines: dict = {}

    @classmethod
    def dialect_engine(cls, backend: str):
        if backend not in cls._dialect_engines:
            eng = sqa.create_engine("sqlite://")
            if backend == "postgres":
                from sqlalchemy.dialects import postgresql

                eng.dialect = postgresql.dialect()
            else:
                from sqlalchemy.dialects import mssql

                eng.dialect = mssql.dialect()
            cls._dialect_engines[backend] = eng
        return cls._dialect_engines[backend]

    def dialect_table(self, tname: str, backend: str):
        key = (tname, backend)
        if not hasattr(self, "_dtables"):
            self._dtables = {}
        if key not in self._dtables:
            md = sqa.MetaData()
            cols = [sqa.Column(cn, sqa.String if col_spec(tname, cn)["str"] else sqa.BigInteger) for cn in table_columns(tname)]
            self._dtables[key] = sqa.Table(tname, md, *cols)
        return self._dtables[key]

    def db_fingerprint(self):
        if not self.with_sql:
            return None
        was = self.faults.fail_exec_in, self.faults.fail_connect
        self.faults.disarm()
        out = []
        try:
            cur = self.raw.cursor()
            for t in TABLES:
                cur.execute(f'SELECT * FROM "{t}" ORDER BY id')
                out.append((t, tuple(cur.fetchall())))
            cur.execute("SELECT name FROM sqlite_master ORDER BY name")
            out.append(tuple(cur.fetchall()))
        except Exception as e:  # noqa: BLE001
            # the database itself is gone / unreadable (e.g. its only connection was closed by the
            # library): that is a change of the source tables, reported by the frame condition
            out.append(("database unreadable", type(e).__name__, str(e)[:80]))
        self.faults.fail_exec_in, self.faults.fail_connect = was
        return tuple(out)

    def frames_fingerprint(self):
        return tuple((t, tuple(self.frames[t].columns), tuple(self.frames[t].rows())) for t in TABLES)

    def close(self):
        if self.with_sql:
            self.engine.dispose()
            self.raw.close()
