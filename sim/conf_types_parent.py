"""Parent of the C13 check: samples configurations (interpreter level: PYTHONHASHSEED, dtype-hash
salt; in-process: declaration-order permutation), compares every outcome table with the
reference configuration's table, classifies violations, writes evidence."""

import collections
import json
import os
import time

from sim import runner as R

TIERS = {
    "quick": dict(groups=16, perms_per_group=4, budget_s=120),
    "thorough": dict(groups=64, perms_per_group=12, budget_s=600),
}


def plan(tier, verif_seed):
    T = TIERS[tier]
    jobs = []
    for g in range(T["groups"]):
        env = R.group_env(verif_seed, g)
        perms = [0] if g == 0 else []
        perms += [R.h("perm", verif_seed, g, i) % (2**31) + 1 for i in range(T["perms_per_group"] - len(perms))]
        jobs.append((g, env, perms))
    return jobs


def run(tier: str, verif_seed: int) -> int:
    from sim.findings import load_findings, match_finding

    t0 = time.time()
    T = TIERS[tier]
    findings = load_findings()
    harness_errors = []
    confs = []
    waves = [plan(tier, verif_seed)[i : i + 16] for i in range(0, T["groups"], 16)]
    for wave in waves:
        procs = []
        for g, env, perms in wave:
            job = dict(kind="conf_types", perms=perms, hard_timeout=T["budget_s"] + 120, samples=(g == 0))
            procs.append(R.spawn(job, env, f"C13-{tier}-g{g}"))
        harness_errors += R.wait_all(procs, T["budget_s"] + 180)
        for pr in procs:
            for rec in R.read_jsonl(pr["out"]):
                if rec["type"] == "conf":
                    rec["env"] = pr["env"]
                    confs.append(rec)
    if not confs:
        print("HARNESS-ERROR no configuration completed", harness_errors[:2])
        return 2
    ref = next((c for c in confs if c["perm"] == 0 and c["env"]["PYTHONHASHSEED"] == "0"), confs[0])
    violations = []
    # O13.2 order independence
    n_compared = 0
    for c in confs:
        if c is ref:
            continue
        n_compared += 1
        diff = [op for op in ref["digests"] if c["digests"].get(op) != ref["digests"][op]]
        if diff:
            violations.append(
                dict(
                    oracle="O13.2",
                    op=diff[0],
                    what=f"outcome table of `{diff[0]}` ({len(diff)} operators differ) under {c['env']} perm={c['perm']} differs from the reference configuration",
                    features=dict(kind="table_differs"),
                    env=ref["env"],
                    env_b=c["env"],
                    perm_a=ref["perm"],
                    perm_b=c["perm"],
                    ops=diff[:5],
                )
            )
    # O13.1 / O13.3 / O13.4 relations (reported once per distinct (oracle, op, features))
    seen = set()
    for c in confs:
        for v in c["violations"]:
            key = (v["oracle"], v["op"], json.dumps(v["features"], sort_keys=True))
            if key in seen:
                continue
            seen.add(key)
            violations.append(dict(v, env=c["env"], perm_a=c["perm"], ops=[v["op"]]))

    n_viol = 0
    known_hits = collections.Counter()
    lines = []
    for v in violations:
        rec = dict(property="C13", oracle=v["oracle"], op=v.get("op"), features=v["features"])
        k = match_finding(findings, rec)
        if k:
            known_hits[k] += 1
            continue
        n_viol += 1
        if n_viol <= 8:
            payload = dict(kind="conf_types", property="C13", oracle=v["oracle"], seed=verif_seed, env=v["env"], env_b=v.get("env_b"), perm_a=v.get("perm_a"), perm_b=v.get("perm_b"), ops=v.get("ops"), sig=v.get("sig"), expected=dict(what=v["what"]))
            path = R.write_replay("C13", f"{v['oracle']}-{v.get('op')}-{n_viol}", payload)
            lines.append(f"VIOLATION property=C13 replay={path}")
            lines.append(f"  oracle={v['oracle']} op={v.get('op')}: {v['what'][:300]}")
    for f in findings:
        if f.get("status") == "open" and f["property"] == "C13":
            lines.append(f"KNOWN-FINDING: property=C13 {f['id']}: {f['what']} (hit {known_hits.get(f['id'], 0)}x in this run)")

    wall = time.time() - t0
    n_entries = ref["n_entries"]
    envs = {json.dumps(c["env"], sort_keys=True) for c in confs}
    ev = dict(
        property_id="C13",
        tier=tier,
        seed=verif_seed,
        level="exploration",
        coverage=dict(
            evaluations=len(confs),
            distinct_nontrivial=len({(json.dumps(c["env"], sort_keys=True), c["perm"]) for c in confs if c["n_accepted"] > 0}),
            rule=(
                "one evaluation = the complete overload-resolution outcome table (every operator x every argument-type tuple "
                "over the 52-type universe for arity <= 2, declared types for later positions, plus lca_type over pairs/triples and casts; "
                "additionally ~18k (operator, column-type tuple) cases through one reused deferred expression per operator in mutate (O13.5); "
                "resolution and ColFn construction) recomputed in one configuration = (PYTHONHASHSEED, dtype-hash salt, "
                "declaration-order permutation of every signature trie node and of IMPLICIT_CONVS); distinct = distinct "
                "configuration; non-trivial = the table has accepted entries"
            ),
            samples=[dict(configuration=dict(env=ref["env"], perm=ref["perm"]), table_rows=ref.get("samples", {}))],
            exhaustive=False,
            table_entries_per_configuration=n_entries,
            accepted_entries=ref["n_accepted"],
            total_resolutions=sum(c["n_entries"] for c in confs) * 2,
            deferred_route_cases_per_configuration=ref.get("n_deferred", 0),
            configurations_compared_with_reference=n_compared,
            interpreter_environments=len(envs),
            permutations=sum(1 for c in confs if c["perm"] != 0),
            trie_nodes_permuted_per_configuration=max(c["nodes_permuted"] for c in confs),
            runs_per_hour=round(len(confs) / max(wall, 1e-9) * 3600),
            simulated_time="not applicable: overload resolution reads no clock; the explored dimension is configuration",
            faults_fired=dict(declaration_order_permutation=sum(1 for c in confs if c["perm"] != 0), hash_seed_change=len(envs) - 1),
            relation_violations_in_reference=ref["n_violations"],
            known_findings_hit=dict(known_hits),
            components=dict(real=["pydiverse.transform operators, signature tries, IMPLICIT_CONVS, ColFn type checking"], stub=["typed dummy columns (Col objects carrying only a dtype)", "Dtype.__hash__ salt"]),
            harness_errors=len(harness_errors),
        ),
        assumptions=[
            "relations O13.1/3/4 are evaluated over the table itself; whether the unique overload chosen is the intended one is not judged",
            "vararg operators are enumerated up to one extra argument; positions beyond the second use the declared types",
        ],
        wall_s=round(wall, 2),
        violations=n_viol,
    )
    os.makedirs(os.path.join(R.ROOT, "evidence"), exist_ok=True)
    json.dump(ev, open(os.path.join(R.ROOT, "evidence", "C13.json"), "w"), indent=1)
    for ln in lines:
        print(ln)
    print(f"C13 [types/{tier}] configurations={len(confs)} entries/conf={n_entries} violations={n_viol} known={sum(known_hits.values())} harness_errors={len(harness_errors)} wall={wall:.0f}s")
    if harness_errors:
        for e in harness_errors[:3]:
            print("HARNESS-ERROR", e[-500:])
        return 2
    return 1 if n_viol else 0


def replay(payload) -> int:
    """recompute the named operators' rows in the recorded configuration(s) and compare"""
    envs = [(payload["env"], payload.get("perm_a") or 0)]
    if payload.get("env_b"):
        envs.append((payload["env_b"], payload.get("perm_b") or 0))
    tables = []
    for k, (env, perm) in enumerate(envs):
        job = dict(kind="conf_types", perms=[perm], only_ops=payload.get("ops"), dump_ops=payload.get("ops"), deferred=payload["oracle"] == "O13.5", hard_timeout=300)
        pr = R.spawn(job, env, f"replay-C13-{os.getpid()}-{k}")
        errs = R.wait_all([pr], 300)
        recs = [r for r in R.read_jsonl(pr["out"]) if r["type"] == "conf"]
        if errs or not recs:
            print("HARNESS-ERROR replay worker failed", errs)
            return 2
        tables.append(recs[0])
    if payload["oracle"] == "O13.2":
        a, b = tables[0]["rows"], tables[1]["rows"]
        for op in a:
            for key in a[op]:
                if a[op][key] != b.get(op, {}).get(key):
                    print(f"VIOLATION property=C13 replay=<this file>")
                    print(f"  reproduced: `{op}`({key}) -> {a[op][key]} vs {b.get(op, {}).get(key)}")
                    return 1
        print("not reproduced: tables identical in both configurations")
        return 0
    hits = [v for v in tables[0]["violations"] if v["oracle"] == payload["oracle"]]
    if hits:
        print("VIOLATION property=C13 replay=<this file>")
        print(f"  reproduced: {hits[0]['what'][:300]}")
        return 1
    print("not reproduced: relation holds on this tree")
    return 0
