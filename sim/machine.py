"""M_hist: the history machine.  One Machine = one simulated run.

Executes recipe steps (generated online from a seeded PRNG, or replayed from a list) against
the real library on every live replica (polars / sqlite) and against the reference model, and
evaluates the oracle families enabled by the profile.
"""

import gc
import hashlib
import json
import random
from collections import Counter

import sim.bootstrap  # noqa: F401
import polars as pl

import pydiverse.transform as pdt
from pydiverse.transform._internal.pipe.table import Table as _Table
from sim import exprs as X
from sim import world as W
from sim.model import Model, MTable, Tok
from sim.seams import UUID_REGIMES, Interrupter, SimInterrupt, UuidClock

PUBLIC_ERRORS = ("ColumnNotFoundError", "DataTypeError", "FunctionTypeError", "SubqueryError", "NotSupportedError")
INTERNAL_ERRORS = (
    "AssertionError",
    "AttributeError",
    "KeyError",
    "IndexError",
    "NameError",
    "UnboundLocalError",
    "RecursionError",
    "NotImplementedError",
    "StopIteration",
    "ZeroDivisionError",
)


class Skip(Exception):
    """recipe refers to something that does not exist (any more): step is skipped"""


class Expect(Exception):
    """model: this call must be rejected with one of these exception classes"""

    def __init__(self, classes, rule):
        self.classes = tuple(classes)
        self.rule = rule


class Violation(Exception):
    pass


class PTable:
    __slots__ = ("id", "m", "real", "session", "first_digest", "cq", "nrows")

    def __init__(self, id, m, real, session, cq=None):
        self.id = id
        self.m = m
        self.real = real  # rep -> pdt.Table (executing replicas)
        self.cq = cq or {}  # rep -> pdt.Table (compile-only dialect replicas, C19)
        self.session = session
        self.first_digest = {}  # (rep, kind) -> digest at first observation (O10.2)
        self.nrows = None  # rows of the last export (bounds the size of generated joins)


ROW_CAP = 5000  # joins whose result could be larger are neither generated nor executed


def join_too_big(l: "PTable", r: "PTable") -> bool:
    return (l.nrows if l.nrows is not None else 12) * (r.nrows if r.nrows is not None else 12) > ROW_CAP


def jdump(x) -> str:
    return json.dumps(x, sort_keys=True, separators=(",", ":"), default=str)


def sha(x) -> str:
    return hashlib.sha1(jdump(x).encode()).hexdigest()[:16]


def canon_rows(rows, ordered: bool):
    rows = [tuple(int(v) if isinstance(v, bool) else v for v in r) for r in rows]
    if ordered:
        return rows
    return sorted(rows, key=lambda r: tuple((v is not None, v if v is not None else 0) for v in r))


class Machine:
    # ------------------------------------------------------------------------------
    def __init__(self, cfg: dict):
        """cfg keys: seed, profile (dict), replicas, rows {A:[..],B:[..],D:[..]}, uuid_regime,
        reverse_unordered, max_steps, sessions, p_share, fault (dict of rates), interrupt_at"""
        self.cfg = cfg
        self.seed = cfg["seed"]
        self.profile = cfg["profile"]
        self.fam = set(self.profile["oracles"])
        self.replicas = list(cfg["replicas"])
        self.cq_reps = list(cfg.get("cq_replicas", []))
        self.rng = random.Random(self.seed)
        self.clock = UuidClock(self.seed, cfg.get("uuid_regime", "counter"))
        self.clock.install()
        self.world = W.World(cfg["rows"], reverse_unordered=cfg.get("reverse_unordered", False), with_sql="sqlite" in self.replicas)
        self.model = Model()
        self.tables: dict[str, PTable] = {}
        self.refs: dict[str, dict] = {}  # refid -> {rep: Col}
        self.ref_toks: dict[str, str] = {}  # refid -> tokid
        self.ref_step: dict[str, int] = {}
        self.exprs: dict[str, dict] = {}  # exprid -> {rep: ColExpr}
        self.expr_recs: dict[str, dict] = {}
        self.pipes: dict[str, dict] = {}  # pipeid -> {"real": {rep: Pipeable}, "verbs": [...]}
        self.lazies: dict[str, dict] = {}
        self.steps: list[dict] = []
        self.log: list[str] = []
        self.violations: list[dict] = []
        self.stats = Counter()
        self.reach = Counter()
        self.states = set()
        self.step_no = -1
        self.cur_step = None
        self.interrupter = Interrupter()
        self.sessions = cfg.get("sessions", 1)
        self.p_share = cfg.get("p_share", 0.3)
        self.k_used = set()
        self.incidents = []
        self.pending_fault = None

    def close(self):
        self.world.close()
        UuidClock.uninstall()

    # ------------------------------------------------------------------------------
    # bookkeeping
    # ------------------------------------------------------------------------------
    def violate(self, prop: str, oracle: str, what: str, **features):
        v = dict(
            property=prop,
            oracle=oracle,
            what=what,
            step=self.step_no,
            op=(self.cur_step or {}).get("op"),
            features=features,
        )
        self.violations.append(v)
        self.stats["violations"] += 1
        raise Violation(f"{prop} {oracle}: {what}")

    def note(self, key: str, n: int = 1):
        self.reach[key] += n

    def emit(self, step, outcome, digest=None):
        self.log.append(jdump(dict(i=step.get("i"), op=step.get("op"), s=step.get("s", 0), out=outcome, d=digest)))

    def run_digest(self) -> str:
        h = hashlib.sha1()
        for line in self.log:
            h.update(line.encode())
            h.update(b"\n")
        return h.hexdigest()

    # ------------------------------------------------------------------------------
    # calling the library
    # ------------------------------------------------------------------------------
    def call(self, fn):
        """-> ("ok", value) | ("exc", ClassName, exc)"""
        try:
            return ("ok", fn())
        except (Violation, Skip):
            raise
        except SimInterrupt as e:
            return ("exc", "SimInterrupt", e)
        except Exception as e:  # noqa: BLE001
            return ("exc", type(e).__name__, e)

    def live_reps(self, *pts):
        return [r for r in self.replicas if all(r in p.real for p in pts)]

    def T(self, tid) -> PTable:
        pt = self.tables.get(tid)
        if pt is None:
            raise Skip(tid)
        return pt

    def rctx(self, rep, table, right=None):
        return X.RCtx(rep, table, self.refs, self.exprs, right=right)

    def mctx(self, mt, right=None):
        return X.MCtx(self.model, mt, self.ref_toks, self.expr_recs, right=right)

    def check_recipe_refs(self, rec):
        """Skip the step if a pooled object it names does not exist (deleted by minimisation)."""
        for a in X.refargs_of(rec, self.expr_recs):
            if "r" in a and a["r"] not in self.refs:
                raise Skip(a["r"])

        def walk(x):
            if isinstance(x, dict):
                if x.get("e") == "pool" and x["x"] not in self.exprs:
                    raise Skip(x["x"])
                for v in x.values():
                    walk(v)
            elif isinstance(x, list):
                for v in x:
                    walk(v)

        walk(rec)

    # ------------------------------------------------------------------------------
    # exporting and decoding
    # ------------------------------------------------------------------------------
    def export(self, real_table, *, lazy=False):
        return real_table >> pdt.export(pdt.Polars(lazy=lazy))

    def observe(self, pt: PTable, rep: str, probes: list | None = None):
        """Export (with probe columns for pooled references `probes` = [refid]).
        -> ("ok", cols, rows) | ("exc", cls, exc)"""
        t = pt.real[rep]

        def go():
            tt = t
            if probes:
                tt = tt >> pdt.mutate(**{f"p__{j}": self.refs[r][rep] for j, r in enumerate(probes)})
            df = self.export(tt)
            return list(df.columns), df.rows()

        res = self.call(go)
        if res[0] == "ok":
            cols, rows = res[1]
            return ("ok", cols, rows)
        return res

    def decode_check(self, tok: Tok, val, opaque: bool, padded: frozenset):
        """-> (ok, why, (lineage, r, mod) | None)"""
        if opaque or tok.kind == "opaque":
            return True, "", None
        if val is None:
            if tok.nullable or tok.lineage is None or tok.lineage in padded:
                return True, "", None
            return False, "unexpected null", None
        if tok.kind == "const":
            return (val == tok.const or (isinstance(val, bool) and int(val) == tok.const)), f"const {val!r} != {tok.const!r}", None
        if tok.kind == "str":
            d = W.decode_str(val) if isinstance(val, str) else None
            if d is None:
                return False, f"undecodable {val!r}", None
            off, T, c, r = d
        else:
            if not isinstance(val, int) or isinstance(val, bool):
                return False, f"non-int {val!r}", None
            off, T, c, r = W.decode(val)
        if (T, c) != (tok.T, tok.c):
            return False, f"cell of column (T={T},c={c}) where (T={tok.T},c={tok.c}) expected", None
        if off not in tok.offs:
            return False, f"tag {off} not in {tok.offs}", None
        if tok.lineage is None:
            return True, "", None
        return True, "", (tok.lineage, r, tok.mod)

    def check_rows(self, pt: PTable, toks: list, rows: list):
        """Decode every cell against its token; row alignment; null-together.
        -> None | (why, features)"""
        m = pt.m
        T = self.model.toks
        for row in rows:
            per_lin: dict[str, list] = {}
            nulls: dict[str, list] = {}
            for tokid, val in zip(toks, row, strict=True):
                tok = T[tokid]
                ok, why, al = self.decode_check(tok, val, tokid in m.opaque, m.padded)
                if not ok:
                    return why, dict(kind="decode", tok_kind=tok.kind)
                if al is not None:
                    per_lin.setdefault(al[0], []).append((al[1], al[2]))
                if tok.lineage is not None and not tok.nullable and tok.kind in ("int", "str", "const") and tokid not in m.opaque:
                    nulls.setdefault(tok.lineage, []).append(val is None)
            for lin, lst in per_lin.items():
                exact = {r for r, mod in lst if mod is None}
                if len(exact) > 1:
                    return f"row misalignment within lineage {lin}: rows {sorted(exact)}", dict(kind="align")
                for r, mod in lst:
                    if mod is not None:
                        for e in exact:
                            if e % mod != r:
                                return f"row misalignment (mod {mod}) within lineage {lin}", dict(kind="align")
                mods = {(r, mod) for r, mod in lst if mod is not None}
                byr = {}
                for r, mod in mods:
                    byr.setdefault(mod, set()).add(r)
                if any(len(s) > 1 for s in byr.values()):
                    return f"row misalignment (mod) within lineage {lin}", dict(kind="align")
            for lin, flags in nulls.items():
                if any(flags) and not all(flags):
                    return f"lineage {lin} partially null in a row", dict(kind="nulltogether")
        return None

    def refs_in_scope(self, m: MTable, *, hidden_only=False, limit=8):
        vis = set(m.vis_toks())
        out = []
        seen = set()
        for rid in sorted(self.refs, key=lambda r: self.ref_step[r]):
            tok = self.ref_toks[rid]
            if tok in m.scope and tok not in seen and (not hidden_only or tok not in vis):
                seen.add(tok)
                out.append(rid)
        if len(out) > limit:
            out = self.rng_stable_sample(out, limit, m.id)
        return out

    def rng_stable_sample(self, lst, k, salt):
        # deterministic subsample that does not consume the generator PRNG (log-safe)
        r = random.Random(f"{self.seed}:{salt}")
        return sorted(r.sample(lst, k), key=lst.index)

    # ------------------------------------------------------------------------------
    # run loops
    # ------------------------------------------------------------------------------
    def exec_step(self, step: dict):
        self.step_no = step["i"]
        self.cur_step = step
        self.stats["steps"] += 1
        handler = getattr(self, "op_" + step["op"])
        try:
            handler(step)
        except Skip as e:
            self.stats["skipped"] += 1
            self.emit(step, f"skip:{e}")
        except Violation:
            self.emit(step, "VIOLATION")
            raise

    def replay(self, steps: list):
        """Execute given steps; stops at the first violation. -> violation dict | None"""
        try:
            for st in steps:
                self.steps.append(st)
                self.exec_step(st)
            self.end_of_run()
        except Violation:
            return self.violations[-1]
        return None

    def generate_and_run(self, max_steps: int):
        from sim.gen import Generator

        g = Generator(self)
        try:
            for i in range(max_steps):
                st = g.next_step(i)
                if st is None:
                    continue
                st["i"] = i
                self.steps.append(st)
                self.exec_step(st)
            self.end_of_run()
        except Violation:
            return self.violations[-1]
        return None

    def end_of_run(self):
        """End-of-run oracles (isolation equivalence etc.) are attached by oracle mixins."""
        self.cur_step = {"op": "end_of_run", "i": self.step_no + 1}
        if "O10" in self.fam:
            self.isolation_oracle()
        if "O14" in self.fam and hasattr(self, "rejects_deleted_oracle"):
            self.rejects_deleted_oracle()
