"""The assembled history machine and the one-run entry point."""

import time
import traceback
import warnings

import sim.bootstrap  # noqa: F401
from sim.machine import Machine, Violation
from sim.cqprobe import CqProbeMixin
from sim.observers import ObserversMixin
from sim.ops import OpsMixin
from sim.oracles import OraclesMixin
from sim.profiles import PROFILES, make_cfg
from sim.rejects import RejectsMixin

warnings.filterwarnings("ignore")


class HistMachine(CqProbeMixin, OpsMixin, OraclesMixin, ObserversMixin, RejectsMixin, Machine):
    pass


def public_steps(steps):
    """recipes without the private (underscore) annotations added during execution"""

    def clean(x):
        if isinstance(x, dict):
            return {k: clean(v) for k, v in x.items() if not k.startswith("_")}
        if isinstance(x, list):
            return [clean(v) for v in x]
        return x

    return [clean(s) for s in steps]


def run_cfg(cfg: dict, steps: list | None = None) -> dict:
    """Run one simulated history (generate, or replay `steps`). Never raises for a violation."""
    cfg = dict(cfg)
    cfg["profile"] = PROFILES[cfg["profile_name"]]
    t0 = time.time()
    mach = HistMachine(cfg)
    harness_error = None
    viol = None
    try:
        if steps is None:
            viol = mach.generate_and_run(cfg["max_steps"])
        else:
            viol = mach.replay([dict(s) for s in steps])
    except Violation:
        viol = mach.violations[-1] if mach.violations else None
    except Exception:  # noqa: BLE001
        harness_error = traceback.format_exc()
    finally:
        mach.close()
    return dict(
        seed=cfg["seed"],
        cfg={k: v for k, v in cfg.items() if k != "profile"},
        steps=public_steps(mach.steps),
        digest=mach.run_digest(),
        log=mach.log,
        violation=viol,
        harness_error=harness_error,
        stats=dict(mach.stats),
        reach=dict(mach.reach),
        incidents=mach.incidents,
        states=sorted(map(repr, mach.states)),
        uuid_calls=mach.clock.calls,
        uuid_span=(mach.clock.max_int - mach.clock.min_int) if mach.clock.min_int is not None else 0,
        wall=time.time() - t0,
        shape=mach_shape(mach),
    )


def mach_shape(mach) -> str:
    """run shape: op-kind sequence + outcomes (for the distinct-run count)"""
    import hashlib

    h = hashlib.sha1()
    for line in mach.log:
        import json

        d = json.loads(line)
        h.update(f"{d['op']}:{str(d['out'])[:12]};".encode())
    return h.hexdigest()[:16]
