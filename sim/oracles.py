"""Oracle families of the history machine (DESIGN.md section 5).

O6  join names / reachability / rows          (C06)
O8  SubqueryError protocol, SQL == Polars      (C08)
O9  references denote columns                  (C09)
O10 immutability: frame condition, stability, isolation equivalence (C10)
O11 metadata == export == recomputation        (C11)
O14 rejections are no-ops; accepted pipelines export (C14)
O16 re-rooting                                 (C16)
"""

import json

import sim.bootstrap  # noqa: F401
import polars as pl

import pydiverse.transform as pdt
from pydiverse.transform._internal.pipe.table import Table as _Table
from sim import exprs as X
from sim import fingerprint as F
from sim.machine import INTERNAL_ERRORS, ROW_CAP, Skip, canon_rows, sha

FAM_PROP = {"O19": "C19", "O6": "C06", "O8": "C08", "O9": "C09", "O10": "C10", "O11": "C11", "O14": "C14", "O16": "C16"}
REROOT_OPS = ("alias", "collect", "clone", "transfer", "recompute")


class OraclesMixin:
    # ------------------------------------------------------------------------------
    # frame condition (O10.1 / O14.3)
    # ------------------------------------------------------------------------------
    def want_fp(self):
        return "O10" in self.fam or "O14" in self.fam

    def pool_fingerprint(self):
        memo = {}
        out = {}
        for tid, pt in self.tables.items():
            for rep, t in pt.real.items():
                out[("t", tid, rep)] = F.fp_table(t, memo)
        for rid, d in self.refs.items():
            for rep, c in d.items():
                out[("r", rid, rep)] = F.fp_expr(c, memo)
        for eid, d in self.exprs.items():
            for rep, e in d.items():
                out[("e", eid, rep)] = F.fp_expr(e, memo)
        for pid, d in self.pipes.items():
            for rep, p in d["real"].items():
                out[("p", pid, rep)] = F.fp_pipeable(p, memo)
        out[("frames",)] = self.world.frames_fingerprint()
        out[("db",)] = self.world.db_fingerprint()
        return out

    def check_frame_condition(self, before, step, results=None):
        after = self.pool_fingerprint()
        for key, fp in before.items():
            if after.get(key) != fp:
                kind = {"t": "table", "r": "reference", "e": "expression", "p": "pipeable"}.get(key[0], key[0])
                outcome = "ok"
                if results:
                    outs = sorted({(r[1] if r[0] == "exc" else "ok") for r in results.values()})
                    outcome = ",".join(outs)
                prop = "C10" if "O10" in self.fam else "C14"
                orc = "O10.1" if "O10" in self.fam else "O14.3"
                self.violate(
                    prop,
                    orc,
                    f"`{step['op']}` (outcome {outcome}) changed pre-existing {kind} object {key[1] if len(key) > 1 else ''}"
                    f" [{self.fp_diff(fp, after.get(key))}]",
                    obj=kind,
                    op=step["op"],
                    outcome=outcome,
                    uses_pool=bool(step.get("_uses_pool") or self.step_uses_pooled_expr(step)),
                )

    def step_uses_pooled_expr(self, step):
        found = False

        def walk(x):
            nonlocal found
            if isinstance(x, dict):
                if x.get("e") == "pool":
                    found = True
                for v in x.values():
                    walk(v)
            elif isinstance(x, list):
                for v in x:
                    walk(v)

        walk(step)
        return found

    def fp_diff(self, a, b, path=""):
        if type(a) is not type(b) or not isinstance(a, tuple):
            return f"{path}: {str(a)[:60]} -> {str(b)[:60]}"
        if len(a) != len(b):
            return f"{path}: len {len(a)} -> {len(b)}"
        for i, (x, y) in enumerate(zip(a, b, strict=True)):
            if x != y:
                return self.fp_diff(x, y, f"{path}/{x[0] if isinstance(x, tuple) and x and isinstance(x[0], str) else i}")
        return "?"

    # ------------------------------------------------------------------------------
    # O10.3 isolation equivalence: the dependency cone of a table, re-instantiated alone in a
    # fresh world, exports the same frame as the table does in the shared world
    # ------------------------------------------------------------------------------
    @staticmethod
    def step_inputs(st) -> set:
        ids = set()

        def add(x):
            if isinstance(x, str) and len(x) > 1 and x[0] in "trepz" and x[1].isdigit():
                ids.add(int(x[1:].split(".")[0].split("_")[0]))

        def walk(x, key=None):
            if isinstance(x, dict):
                for k, v in x.items():
                    if k in ("t", "l", "new", "src", "via", "x", "p", "z", "other", "ref"):
                        add(v)
                    elif k == "r":
                        add(v)
                    walk(v, k)
            elif isinstance(x, list):
                for v in x:
                    walk(v)

        walk(st)
        ids.discard(st.get("i"))
        return ids

    def cone(self, tid: str) -> list:
        by_i = {st["i"]: st for st in self.steps}
        need = {int(tid[1:])}
        stack = [int(tid[1:])]
        while stack:
            i = stack.pop()
            st = by_i.get(i)
            if st is None:
                continue
            for j in self.step_inputs(st):
                if j not in need:
                    need.add(j)
                    stack.append(j)
        return [st for st in self.steps if st["i"] in need and st["op"] not in ("reject", "observe", "collect_lazy", "gc", "arm_engine", "uuid_regime")]

    def isolation_oracle(self):
        from sim.hist import HistMachine, public_steps
        from sim.profiles import PROFILES

        live = [t for t in self.tables if self.tables[t].first_digest]
        if not live:
            return
        k = self.profile.get("isolation_checks", 3)
        picks = live[-k:] if len(live) <= k else self.rng_stable_sample(live, k, "iso")
        for tid in picks:
            pt = self.tables[tid]
            steps = public_steps(self.cone(tid))
            for st in steps:
                st.pop("interrupt_at", None)
            cfg = dict(self.cfg)
            cfg.update(profile=PROFILES["none"], profile_name="none", digest_only=True, sessions=1, uuid_regime="counter", population="clean")
            inner = HistMachine(cfg)
            iq = None
            try:
                inner.replay(steps)
                ipt = inner.tables.get(tid)
                if ipt is not None and "sqlite" in ipt.real:
                    iq = inner.call(lambda: ipt.real["sqlite"] >> pdt.build_query())
            finally:
                inner.close()
                self.clock.install()
            self.stats["isolation_replays"] += 1
            if ipt is None:
                self.stats["isolation_cone_failed"] += 1
                continue
            # the SQL text of the table is a function of its own recipe, too (a table derived from
            # one whose query was built or printed before compiles like a history-free sibling)
            if iq is not None and iq[0] == "ok" and "sqlite" in pt.real:
                q = self.call(lambda: pt.real["sqlite"] >> pdt.build_query())
                self.stats["isolation_queries_compared"] += 1
                if q[0] != "ok" or q[1] != iq[1]:
                    self.violate(
                        "C10",
                        "O10.3",
                        f"build_query of table {tid} in the shared world differs from that of its own recipe in a fresh world; cone of {len(steps)} steps: "
                        + (f"raised {q[1]}" if q[0] != "ok" else self.first_text_diff(q[1], iq[1])),
                        rep="sqlite",
                        kind="query_text",
                        tail="/".join(pt.m.verbs[-3:]),
                    )
            for rep in sorted(pt.real):
                now = self.observe(pt, rep, [])
                if now[0] != "ok" or rep not in ipt.first_digest:
                    continue
                d = sha((now[1], canon_rows(now[2], pt.m.order_fixed)))
                self.stats["isolation_compared"] += 1
                if d != ipt.first_digest[rep]:
                    self.violate(
                        "C10",
                        "O10.3",
                        f"table {tid} exports differently in the shared world than its own recipe does in a fresh world ({rep}); cone of {len(steps)} steps",
                        rep=rep,
                        tail="/".join(pt.m.verbs[-3:]),
                        cone_uses_pool=any(self.step_uses_pooled_expr(st) or st["op"] == "apply_pipe" for st in steps),
                    )

    @staticmethod
    def first_text_diff(a: str, b: str) -> str:
        k = next((i for i, (x, y) in enumerate(zip(a, b)) if x != y), min(len(a), len(b)))
        return f"at char {k}: {a[max(0, k - 30) : k + 40]!r} vs {b[max(0, k - 30) : k + 40]!r}"

    def rejects_deleted_oracle(self):
        """O14.3: the run with all rejected steps deleted yields identical results for every table"""
        from sim.hist import HistMachine, public_steps
        from sim.profiles import PROFILES

        rejected = {json.loads(ln)["i"] for ln in self.log if json.loads(ln)["out"].startswith("rejected:")}
        if not rejected:
            return
        steps = [st for st in public_steps(self.steps) if st["i"] not in rejected and st["op"] not in ("observe", "collect_lazy", "arm_engine")]
        cfg = dict(self.cfg)
        cfg.update(profile=PROFILES["none"], profile_name="none", digest_only=True, population="clean")
        inner = HistMachine(cfg)
        try:
            inner.replay(steps)
        finally:
            inner.close()
            self.clock.install()
        self.stats["rejects_deleted_replays"] += 1
        for tid, pt in self.tables.items():
            ipt = inner.tables.get(tid)
            if ipt is None:
                if pt.first_digest:
                    self.stats["rejects_deleted_missing"] += 1
                continue
            for rep, d in ipt.first_digest.items():
                if isinstance(rep, str) and rep in inner.replicas and rep not in pt.first_digest and rep in self.replicas:
                    self.violate(
                        "C14",
                        "O14.3",
                        f"table {tid} exports on {rep} in the run without the {len(rejected)} rejected calls, but not in the run with them: a rejected call was not a no-op",
                        rep=rep,
                        kind="export_lost",
                    )
            for rep, d in pt.first_digest.items():
                if isinstance(rep, str) and rep in ipt.first_digest:
                    self.stats["rejects_deleted_compared"] += 1
                    if ipt.first_digest[rep] != d:
                        self.violate(
                            "C14",
                            "O14.3",
                            f"table {tid} ({rep}) differs between the run with {len(rejected)} rejected calls and the same run without them: a rejected call was not a no-op",
                            rep=rep,
                        )

    # ------------------------------------------------------------------------------
    # after a table was produced
    # ------------------------------------------------------------------------------
    def primary_family(self):
        for f in ("O8", "O6", "O9", "O16", "O10", "O11", "O14", "O19"):
            if f in self.fam:
                return f
        return None

    def after_produce(self, pt, step, inputs):
        m = pt.m
        op = step["op"]
        reps = sorted(pt.real)

        # ---- names as the library reports them ------------------------------------
        names = {}
        for rep in reps:
            res = self.call(lambda rep=rep: pt.real[rep] >> pdt.columns())
            if res[0] != "ok":
                self.violate(self.primary_prop("C11"), "crash", f"columns() raised {res[1]} on {rep}", op=op)
            names[rep] = list(res[1])
        if len({tuple(v) for v in names.values()}) > 1:
            fam = "O6" if op == "join" and "O6" in self.fam else "O11" if "O11" in self.fam else self.primary_family()
            if fam:
                self.violate(FAM_PROP[fam], fam + ".xrep", f"column names differ between back ends after `{op}`: {names}", op=op)
        lib_names = names[reps[0]]

        if op == "join":
            try:
                self.join_names(pt, step, inputs, lib_names)
            except Skip:
                # the names cannot be reconciled with the documented rule (judged under C06 only);
                # the table's own metadata is still compared with its export under C11
                if "O11" in self.fam:
                    self.metadata_oracle(pt, step, lib_names)
                raise

        if set(lib_names) != set(m.names()) or len(lib_names) != len(m.names()):
            fam = "O11" if "O11" in self.fam else "O16" if ("O16" in self.fam and op in REROOT_OPS) else self.primary_family()
            if fam:
                self.violate(
                    FAM_PROP[fam],
                    "O11.5" if fam == "O11" else fam + ".names",
                    f"after `{op}` the table reports columns {lib_names}, documented rule gives {m.names()}",
                    op=op,
                )
            raise Skip("names disagree with model")

        if "O11" in self.fam:
            self.metadata_oracle(pt, step, lib_names)

        # ---- data -----------------------------------------------------------------
        digest = None
        want_data = bool(self.fam & {"O6", "O8", "O9", "O10", "O14", "O16", "O19"}) or self.cfg.get("digest_only")
        if want_data:
            digest = self.data_oracle(pt, step, inputs)
        elif "O11" in self.fam:
            digest = sha(lib_names)
        if "O19" in self.fam:
            digest = sha((digest, self.sql_oracle(pt, step)))
            # the inputs of the step are unchanged tables: their SQL text is what it was (O19.2)
            for inp in inputs or ():
                if inp is not pt and inp.id in self.tables:
                    self.sql_oracle(inp, step)
        if op == "join" and "O6" in self.fam:
            self.join_rows_oracle(pt, step, inputs)
        elif op == "join" and "O16" in self.fam and (inputs[0].m.same_as == inputs[1].id or inputs[1].m.same_as == inputs[0].id or step.get("selfjoin")):
            self.note("selfjoin_with_origin")
            self.join_rows_oracle(pt, step, inputs, prop="C16", orc="O16.2")
        if "O16" in self.fam and op in REROOT_OPS:
            self.reroot_oracle(pt, step, inputs)
        return digest

    def incident(self, step, rep, cls, exc, where):
        """something failed that no enabled oracle judges: counted and sampled, never an alarm"""
        self.stats["incidental"] += 1
        self.stats[f"incidental:{where}:{rep}:{cls}"] += 1
        if len(self.incidents) < 5:
            self.incidents.append(dict(step=step.get("i"), op=step.get("op"), rep=rep, cls=cls, where=where, msg=str(exc)[:200]))

    def primary_prop(self, default):
        f = self.primary_family()
        return FAM_PROP[f] if f else default

    # ------------------------------------------------------------------------------
    # O6.1 / O6.2  names after a join
    # ------------------------------------------------------------------------------
    def join_names(self, pt, step, inputs, lib_names):
        l, r = inputs
        lm, rm = l.m, r.m
        m = pt.m
        nl, nr = len(lm.visible), len(rm.visible)
        check = "O6" in self.fam

        def bad(orc, what, **kw):
            if check:
                self.violate("C06", orc, what, how=step["how"], user_suffix=bool(step.get("suffix")), **kw)
            raise Skip("join names")

        if len(lib_names) != nl + nr:
            bad("O6.1", f"join of {nl}+{nr} visible columns reports {len(lib_names)} columns: {lib_names}", kind="count")
        if lib_names[:nl] != lm.names():
            bad("O6.1", f"left names changed by join: {lm.names()} -> {lib_names[:nl]}", kind="left_changed")
        right_new = lib_names[nl:]
        if len(set(lib_names)) != len(lib_names):
            bad("O6.1", f"join result has duplicate names {lib_names}", kind="duplicate")
        user = step.get("suffix")
        base = user if user else ("_" + rm.name if rm.name is not None else "_right")
        sfx_seen = set()
        for orig, new in zip(rm.names(), right_new, strict=True):
            if new == orig:
                sfx_seen.add("")
                continue
            if not new.startswith(orig):
                bad("O6.1", f"right column {orig!r} became {new!r}", kind="not_suffixed")
            s = new[len(orig) :]
            if s == base:
                sfx_seen.add(s)
            elif s.startswith(base + "_") and s[len(base) + 1 :].isdigit() and not user:
                sfx_seen.add(s)
            else:
                bad("O6.1", f"right column {orig!r} became {new!r}: not the documented suffix {base!r}[_k]", kind="wrong_suffix")
        nonempty = {s for s in sfx_seen if s}
        if len(nonempty) > 1:
            bad("O6.1", f"right columns got different suffixes {sorted(nonempty)}", kind="mixed_suffix")
        if user and "" in sfx_seen:
            bad("O6.1", "user suffix not applied to every right column", kind="user_suffix_partial")
        if not (set(lm.names()) & set(rm.names())) and not user and nonempty:
            bad("O6.1", f"no name collision, yet right columns were renamed: {right_new}", kind="needless_rename")
        if "" in sfx_seen and nonempty:
            # partial rename (only the clashing join columns get the suffix): every renamed right
            # column clashes with a left name
            lnames = set(lm.names())
            for orig, new in zip(rm.names(), right_new, strict=True):
                if new != orig and orig not in lnames:
                    bad("O6.1", f"right column {orig!r} does not clash with a left name but became {new!r} while other right columns kept their names", kind="partial_rename_of_non_clashing")
        if nonempty:
            s = next(iter(nonempty))
            if s != base:
                self.note("join_numeric_suffix")
            if "" in sfx_seen:
                self.note("join_partial_rename")
        # write the names into the model
        m.visible = list(lm.visible) + [(n, t) for n, (_, t) in zip(right_new, rm.visible, strict=True)]
        if check:
            # O6.2: every pre-join visible column is visible under the assigned name
            for rep in sorted(pt.real):
                jt = pt.real[rep]
                for side, src in (("left", l), ("right", r)):
                    if rep not in src.real:
                        continue
                    st = src.real[rep]
                    for name, tok in src.m.visible:
                        want = m.name_of_tok(tok)
                        res = self.call(lambda: (st[name] in jt, jt[st[name]].name))
                        if res[0] != "ok" or res[1] != (True, want):
                            self.violate(
                                "C06",
                                "O6.2",
                                f"{side} column {name!r} should be visible as {want!r} after the join; got {res[1]}",
                                side=side,
                                how=step["how"],
                            )

    # ------------------------------------------------------------------------------
    # O11  metadata
    # ------------------------------------------------------------------------------
    def metadata_oracle(self, pt, step, lib_names):
        op = step["op"]
        feats = dict(op=op, verbs_tail="/".join(pt.m.verbs[-2:]))
        for rep in sorted(pt.real):
            t = pt.real[rep]
            self.stats["oracle_evals"] += 1
            res = self.call(
                lambda t=t: dict(
                    it=[c.name for c in t],
                    dir=list(t.__dir__()),
                    dir_sorted=list(dir(t)),
                    len=len(t),
                    contains=[n in t for n in lib_names],
                    notin=("nope__" in t),
                    getitem=[t[n].name for n in lib_names],
                    getattr=[getattr(t, n).name for n in lib_names],
                )
            )
            if res[0] != "ok":
                self.violate("C11", "O11.1", f"metadata accessors raised {res[1]} on {rep}: {str(res[2])[:120]}", rep=rep, **feats)
            d = res[1]
            if not (
                d["it"] == lib_names
                and d["dir"] == lib_names
                and d["dir_sorted"] == sorted(lib_names)  # the dir() builtin sorts
                and d["len"] == len(lib_names)
                and all(d["contains"])
                and not d["notin"]
                and d["getitem"] == lib_names
                and d["getattr"] == lib_names
            ):
                self.violate("C11", "O11.1", f"columns()={lib_names} but iteration/len/in/dir/getitem give {d} ({rep})", rep=rep, **feats)
            # O11.2 export
            ex = self.call(lambda t=t: list(self.export(t).columns))
            if ex[0] != "ok":
                # no frame was produced; C11 is about agreement, so judge the select list the
                # back end is about to produce (SQL) - any other export failure is not C11's
                self.incident(step, rep, ex[1], ex[2], "export")
                if rep == "sqlite":
                    sl = self.call(lambda t=t: [c.name for c in t._cache.backend.build_select(t._ast.clone()).selected_columns])
                    if sl[0] == "ok" and sl[1] != lib_names:
                        self.violate(
                            "C11",
                            "O11.2",
                            f"columns()={lib_names} but the SELECT list compiled for export is {sl[1]} on {rep} (export raised {ex[1]})",
                            rep=rep,
                            kind="select_list",
                            **feats,
                        )
            elif ex[1] != lib_names:
                self.violate(
                    "C11",
                    "O11.2",
                    f"columns()={lib_names} but export gives {ex[1]} on {rep}",
                    rep=rep,
                    kind="order" if sorted(ex[1]) == sorted(lib_names) else "names",
                    **feats,
                )
            # O11.3 recomputation from the whole pipeline
            rc = self.call(lambda t=t: _Table(t._ast) >> pdt.columns())
            if rc[0] != "ok" or list(rc[1]) != lib_names:
                self.violate(
                    "C11",
                    "O11.3",
                    f"accumulated columns {lib_names} != recomputed from the pipeline {rc[1]} ({rep})",
                    rep=rep,
                    **feats,
                )
            # O11.4 printing (polars-backed, ungrouped)
            if rep == "polars" and not pt.m.grouping:
                with pl.Config(tbl_cols=-1, tbl_width_chars=10000, fmt_str_lengths=50):
                    pr = self.call(lambda t=t: str(t))
                if pr[0] != "ok":
                    self.violate("C11", "O11.4", f"str(table) raised {pr[1]}", rep=rep, **feats)
                txt = pr[1]
                if "export failed" in txt or "building query failed" in txt:
                    self.stats["print_failed"] += 1
                    continue
                lines = txt.split("\n")
                shape = next((ln for ln in lines if ln.startswith("shape:")), None)
                header = next((ln for ln in lines if ln.startswith("│")), None)
                ncols = int(shape.split(",")[1].strip(" )")) if shape else None
                hnames = [c.strip() for c in header.strip("│").split("┆")] if header else []
                if lib_names and (ncols != len(lib_names) or hnames != lib_names):
                    self.violate(
                        "C11",
                        "O11.4",
                        f"printed header {hnames} / shape {shape} vs columns() {lib_names}",
                        rep=rep,
                        kind="print_mismatch",
                        **feats,
                    )

    # ------------------------------------------------------------------------------
    # data: decode every visible cell and every probe (O9.1 / O6.3 / O16), replicas agree
    # ------------------------------------------------------------------------------
    def data_oracle(self, pt, step, inputs):
        m = pt.m
        op = step["op"]
        fam = self.primary_family()
        prop = FAM_PROP.get(fam)
        probes = self.refs_in_scope(m, limit=self.profile.get("max_probes", 8)) if self.fam & {"O6", "O9", "O16", "O10", "O8"} else []
        obs = {}
        for rep in sorted(pt.real):
            pr = [r for r in probes if rep in self.refs[r]]
            res = self.observe(pt, rep, pr)
            if res[0] != "ok":
                cls = res[1]
                if rep == "sqlite" and cls in ("NotSupportedError", "SubqueryError") and not ("O8" in self.fam and cls == "SubqueryError"):
                    self.stats["sql_export_refused"] += 1
                    del pt.real[rep]
                    continue
                if cls == "OperationalError" and self.world.faults and self.world.faults.fired_exec + self.world.faults.fired_connect > 0 and step.get("_fault"):
                    continue
                if cls == "SimInterrupt":
                    continue
                # first try without probes: is it the table or the probe that fails?
                res0 = self.observe(pt, rep, [])
                which = "export" if res0[0] != "ok" else "probe"
                self.incident(step, rep, cls, res[2], which)
                if fam is None:
                    continue
                tail = "/".join(m.verbs[-3:])
                if "O8" in self.fam and rep == "sqlite":
                    self.violate("C08", "O8.5", f"accepted pipeline fails at {which} on sqlite with {cls}: {str(res[2])[:160]}", cls=cls, op=op, which=which, cause=self.c08_cause(m, op), tail=tail)
                if which == "probe" and self.fam & {"O9", "O6", "O16"}:
                    self.violate(prop, "O9.1", f"using an in-scope reference after `{op}` raised {cls} on {rep}: {str(res[2])[:160]}", cls=cls, op=op, rep=rep)
                if which == "export":
                    if rep == "polars" and "O14" in self.fam and cls not in ("NotSupportedError", "SubqueryError", "SimInterrupt"):
                        self.violate("C14", "O14.4", f"pipeline accepted by every verb does not export on polars: {cls}: {str(res[2])[:160]}", cls=cls, op=op, tail=tail)
                    if "O6" in self.fam and op == "join":
                        self.violate("C06", "O6.export", f"join result does not export on {rep}: {cls}: {str(res[2])[:160]}", cls=cls, rep=rep, how=step.get("how"))
                    if cls in INTERNAL_ERRORS and self.fam & {"O9", "O6", "O16"}:
                        # an accepted pipeline that dies inside the library (assertion, KeyError, ...)
                        # while its columns are resolved: the references do not denote columns any more
                        orc = {"C09": "O9.export", "C06": "O6.export", "C16": "O16.export"}[prop]
                        self.violate(prop, orc, f"after `{op}` the pipeline fails at export on {rep} with an internal {cls}: {str(res[2])[:160]}", cls=cls, rep=rep, op=op, site=self.exc_site(res[2]))
                    if "O16" in self.fam and op == "join" and step.get("selfjoin"):
                        self.violate("C16", "O16.2", f"self-join with a re-rooted copy does not export on {rep}: {cls}: {str(res[2])[:160]}", cls=cls, rep=rep, how=step.get("how"))
                    if "O16" in self.fam and op in REROOT_OPS:
                        self.violate("C16", "O16.1", f"`{op}` result does not export on {rep}: {cls}: {str(res[2])[:160]}", cls=cls, rep=rep, op=op, grouped=bool(m.grouping))
                    pt.real.pop(rep, None)
                continue
            _, cols, rows = res
            pt.nrows = max(pt.nrows or 0, len(rows))
            if len(rows) > 4 * ROW_CAP:
                self.stats["row_cap_exceeded"] += 1
                raise Skip("export larger than the row cap")
            npr = len(pr)
            vis_cols = cols[: len(cols) - npr]
            if vis_cols != [n for n in vis_cols if m.tok_of_name(n)] or len(vis_cols) != len(m.visible):
                if "O6" in self.fam and op == "join":
                    self.violate(
                        "C06",
                        "O6.1",
                        f"the join result reports the columns {m.names()} but its export on {rep} has {vis_cols}",
                        how=step.get("how"),
                        user_suffix=bool(step.get("suffix")),
                        kind="export_names",
                    )
                raise Skip("export names vs model")
            toks = [m.tok_of_name(n) for n in vis_cols] + [self.ref_toks[r] for r in pr]
            if self.fam & {"O9", "O16", "O6", "O8"}:
                # a reference to a column that is visible denotes that very column: the probe column
                # repeats it cell by cell (this needs no decoding, so it also holds after a union)
                nv = len(vis_cols)
                for j, rid in enumerate(pr):
                    tk = self.ref_toks[rid]
                    if tk in toks[:nv]:
                        i = toks.index(tk)
                        badrow = next((row for row in rows if row[i] != row[nv + j]), None)
                        if badrow is not None:
                            self.violate(
                                prop if prop in ("C09", "C16", "C06", "C08") else "C09",
                                "O9.1" if "O8" not in self.fam else "O8.decode",
                                f"after `{op}` on {rep}: the reference to the visible column {vis_cols[i]!r} yields {badrow[nv + j]!r} in a row where the column holds {badrow[i]!r}",
                                op=op,
                                rep=rep,
                                kind="probe_vs_visible",
                                tail="/".join(m.verbs[-3:]),
                            )
            if self.fam & {"O6", "O9", "O16", "O10", "O8"}:
                bad = self.check_rows(pt, toks, rows)
                if bad is not None:
                    why, feats = bad
                    orc = "O6.3" if ("O6" in self.fam and op == "join") else "O16.1" if ("O16" in self.fam and op in REROOT_OPS) else "O9.1"
                    if fam in ("O8", "O10"):
                        orc = fam + ".decode"
                    self.violate(prop, orc, f"after `{op}` on {rep}: {why}", op=op, rep=rep, tail="/".join(m.verbs[-3:]), **feats)
            if "O8" in self.fam and len(pt.real) == 2 and all(set(pr) <= set(self.refs[r]) for r in probes for pr in [sorted(pt.real)]):
                # C08: hidden columns reached through references are compared across the replicas, too
                obs[rep] = (cols, [tuple(r) for r in rows])
            else:
                obs[rep] = (vis_cols, [r[: len(vis_cols)] for r in rows])
            self.stats["exports"] += 1
            self.stats["oracle_evals"] += 1
            self.stats["cells_decoded"] += len(rows) * len(toks)
            if npr:
                self.stats["probe_cols"] += npr
        if not obs:
            return None
        canon = {rep: (c, canon_rows(r, m.order_fixed)) for rep, (c, r) in obs.items()}
        if len(canon) == 2 and canon["polars"] != canon["sqlite"]:
            cp, cs = canon["polars"], canon["sqlite"]
            kind = "names" if cp[0] != cs[0] else "nrows" if len(cp[1]) != len(cs[1]) else "values"
            # rows are compared across back ends only where the property says so (C08: an accepted
            # SQL pipeline equals the Polars result); elsewhere each replica is judged on its own
            if fam is not None and (kind == "names" or "O8" in self.fam):
                orc = {"O8": "O8.1", "O6": "O6.xrep", "O9": "O9.4", "O16": "O16.xrep", "O10": "O10.xrep", "O14": "O14.2x"}[fam]
                self.violate(
                    prop,
                    orc,
                    f"after `{op}` polars and sqlite disagree ({kind}): polars {len(cp[1])} rows, sqlite {len(cs[1])} rows; first diff {self.first_diff(cp[1], cs[1])}",
                    op=op,
                    kind=kind,
                    cause=self.c08_cause(m, op),
                    tail="/".join(m.verbs[-3:]),
                    limit=m.n_limit,
                    window=m.n_window,
                )
            self.stats["xrep_rows_differ_unjudged"] += 1
        rep0 = "polars" if "polars" in canon else sorted(canon)[0]
        digest = sha(canon[rep0])
        for rep in canon:
            if rep == "sqlite" and probes and self.c08_cause(m, op) != "other":
                # defect X-42 (K-01, repaired): in this state the number of rows SQLite returns depends on
                # whether the SELECT list contains an aggregate - and the probe columns add one. The
                # probed export is then not comparable with a later plain export (O10.2).
                self.stats["k01_state_digest_not_recorded"] += 1
                continue
            pt.first_digest[rep] = sha(canon[rep])
        return digest

    @staticmethod
    def c08_cause(m, op):
        """model-side classification of a SQL / Polars disagreement (for known-finding matching)"""
        if m.ung is not None and not (set(m.vis_toks()) & m.ung):
            return "ungrouped_summarize_no_aggregate_left_in_select"
        return "other"

    @staticmethod
    def first_diff(a, b):
        for x, y in zip(a, b, strict=False):
            if x != y:
                return f"{x} vs {y}"
        return "length"

    # ------------------------------------------------------------------------------
    # O6.4 join rows = nested loop over the observed inputs
    # ------------------------------------------------------------------------------
    def own_ref(self, src_pt, tok, rep):
        """a real reference to token `tok` taken from src_pt (visible) or from the pool"""
        name = src_pt.m.name_of_tok(tok)
        if name is not None:
            return src_pt.real[rep][name]
        for rid in sorted(self.refs, key=lambda r: self.ref_step[r]):
            if self.ref_toks[rid] == tok and rep in self.refs[rid]:
                return self.refs[rid][rep]
        return None

    def join_rows_oracle(self, pt, step, inputs, prop="C06", orc="O6.4"):
        l, r = inputs
        lm, rm = l.m, r.m
        if not lm.rowid or not rm.rowid:
            self.stats["o64_skipped_rowid"] += 1
            return
        on = step["on"]
        how = step["how"]
        T = self.model.toks
        cxm = self.mctx(lm, right=rm)
        # tokens the predicate reads
        need = []
        for p in on:
            if isinstance(p, str):
                need += [lm.tok_of_name(p), rm.tok_of_name(p)]
            else:
                need += [cxm.resolve(a) for a in X.refargs_of(p, self.expr_recs)]
        for rep in sorted(pt.real):
            if rep not in l.real or rep not in r.real:
                continue
            sides = {}
            ok = True
            for side, sp in (("l", l), ("r", r)):
                toks = list(sp.m.rowid) + [t for t in need if t in sp.m.scope and t not in sp.m.rowid]
                refs = [self.own_ref(sp, t, rep) for t in toks]
                if any(x is None for x in refs):
                    ok = False
                    break
                res = self.call(
                    lambda sp=sp, refs=refs: self.export(
                        sp.real[rep] >> pdt.mutate(**{f"q__{j}": c for j, c in enumerate(refs)}) >> pdt.select(*[f"q__{j}" for j in range(len(refs))])
                    ).rows()
                )
                if res[0] != "ok":
                    ok = False
                    break
                sides[side] = (toks, refs, res[1])
            if not ok:
                self.stats["o64_skipped_refs"] += 1
                continue
            (ltoks, lrefs, lrows), (rtoks, rrefs, rrows) = sides["l"], sides["r"]
            nl, nr = len(lm.rowid), len(rm.rowid)
            # observed output identified by the same references
            res = self.call(
                lambda: self.export(
                    pt.real[rep]
                    >> pdt.mutate(**{f"q__{j}": c for j, c in enumerate(lrefs[:nl] + rrefs[:nr])})
                    >> pdt.select(*[f"q__{j}" for j in range(nl + nr)])
                ).rows()
            )
            if res[0] != "ok":
                self.violate(prop, "O6.3" if prop == "C06" else orc, f"row-id references of the inputs cannot be used on the join result ({rep}): {res[1]}: {str(res[2])[:120]}", how=how, rep=rep)
            got = sorted(res[1], key=lambda t: tuple((v is not None, v or 0) for v in t))

            def mk_val(lrow, rrow):
                def val(a):
                    if isinstance(a, str):
                        raise AssertionError
                    tok = cxm.resolve(a)
                    if tok in ltoks and lrow is not None:
                        return lrow[ltoks.index(tok)]
                    if tok in rtoks and rrow is not None:
                        return rrow[rtoks.index(tok)]
                    return None

                return val

            exp = []
            matched_r = set()
            for lrow in lrows:
                hit = False
                for j, rrow in enumerate(rrows):
                    v = mk_val(lrow, rrow)
                    good = True
                    for p in on:
                        if isinstance(p, str):
                            a = lrow[ltoks.index(lm.tok_of_name(p))]
                            b = rrow[rtoks.index(rm.tok_of_name(p))]
                            res_p = None if a is None or b is None else a == b
                        else:
                            res_p = X.py_pred(p, v)
                        if res_p is not True:
                            good = False
                            break
                    if good:
                        hit = True
                        matched_r.add(j)
                        exp.append(tuple(lrow[:nl]) + tuple(rrow[:nr]))
                if not hit and how in ("left", "full"):
                    exp.append(tuple(lrow[:nl]) + (None,) * nr)
            if how == "full":
                for j, rrow in enumerate(rrows):
                    if j not in matched_r:
                        exp.append((None,) * nl + tuple(rrow[:nr]))
            exp = sorted(exp, key=lambda t: tuple((v is not None, v or 0) for v in t))
            self.stats["o64_checked"] += 1
            self.stats["o64_pairs"] += len(exp)
            if len(lrows) == 0 or len(rrows) == 0:
                self.note("join_empty_side")
            if exp != got:
                self.violate(
                    prop,
                    orc,
                    f"{how} join on {rep}: expected {len(exp)} row combinations, got {len(got)}; first diff {self.first_diff(exp, got)}",
                    how=how,
                    rep=rep,
                    kind="count" if len(exp) != len(got) else "pairs",
                    on_kinds="/".join(sorted({p if isinstance(p, str) else p["p"] for p in on})) or "cross",
                    left_tail="/".join(lm.verbs[-2:]),
                    right_tail="/".join(rm.verbs[-2:]),
                )

    # ------------------------------------------------------------------------------
    # O19 every accepted pipeline compiles on every dialect, to the same text every time
    # ------------------------------------------------------------------------------
    def sql_oracle(self, pt, step):
        op = step["op"]
        out = {}
        targets = dict(pt.cq)
        if "sqlite" in pt.real:
            targets["sqlite"] = pt.real["sqlite"]
        for rep in sorted(targets):
            t = targets[rep]
            r1 = self.call(lambda t=t: t >> pdt.build_query())
            r2 = self.call(lambda t=t: t >> pdt.build_query())
            self.stats["queries_built"] += 2
            self.stats[f"queries:{rep}"] += 1
            tail = "/".join(pt.m.verbs[-3:])
            if r1[0] != "ok":
                cls = r1[1]
                self.stats[f"build_query_exc:{rep}:{cls}"] += 1
                if cls in ("NotSupportedError", "SubqueryError"):
                    out[rep] = cls
                    continue
                self.violate("C19", "O19.1", f"build_query on the {rep} dialect raised {cls}: {str(r1[2])[:200]}", rep=rep, cls=cls, op=op, tail=tail, site=self.exc_site(r1[2]))
            q = r1[1]
            if not isinstance(q, str) or not q.lstrip().upper().startswith(("SELECT", "WITH")):
                self.violate("C19", "O19.1", f"build_query on {rep} returned {str(q)[:80]!r}: not one SELECT statement", rep=rep, op=op, kind="not_select")
            if ";" in self.strip_sql_literals(q):
                self.violate("C19", "O19.1", f"build_query on {rep} returned more than one statement", rep=rep, op=op, kind="semicolon")
            if r2[0] != "ok" or r2[1] != q:
                import os

                if os.environ.get("PDT_VERIF_DUMP_O192"):
                    with open(os.environ["PDT_VERIF_DUMP_O192"], "a") as fh:
                        fh.write(f"=== {rep} {pt.id}\n--- first\n{q}\n--- second\n{r2[1] if r2[0] == 'ok' else r2[1]}\n")
                kind = "anon_numbering_only" if (r2[0] == "ok" and self.norm_anon(r2[1]) == self.norm_anon(q)) else "text"
                self.violate("C19", "O19.2", f"two build_query calls on one table return different text on {rep}" + (" (only the numbering of SQLAlchemy's anonymous sub-query names differs)" if kind != "text" else ""), rep=rep, kind=kind, op=op, tail=tail)
            key = (rep, "q19")
            dq = (sha(q), sha(self.norm_anon(q)))
            if key in pt.first_digest and pt.first_digest[key][0] != dq[0]:
                kind = "anon_numbering_only" if pt.first_digest[key][1] == dq[1] else "text"
                self.violate("C19", "O19.2", f"build_query text of an unchanged table changed on {rep}" + (" (only the numbering of SQLAlchemy's anonymous sub-query names differs)" if kind != "text" else ""), rep=rep, kind=kind, op=op, tail=tail)
            pt.first_digest[key] = dq
            # (the event log carries the text modulo that numbering, see K-03)
            out[rep] = dq[1]
        return out

    @staticmethod
    def norm_anon(q: str) -> str:
        import re

        return re.sub(r"\banon_\d+\b", "anon_#", q)

    @staticmethod
    def strip_sql_literals(q: str) -> str:
        import re

        return re.sub(r"'(?:[^']|'')*'", "''", q)

    @staticmethod
    def exc_site(exc) -> str:
        """innermost frame inside the library (file:function) - a stable name for the call site"""
        import traceback

        site = "?"
        for fr in traceback.extract_tb(exc.__traceback__):
            if "pydiverse/transform" in fr.filename:
                site = f"{fr.filename.rsplit('/', 1)[-1]}:{fr.name}"
        return site

    # ------------------------------------------------------------------------------
    # O16 re-rooting
    # ------------------------------------------------------------------------------
    def reroot_oracle(self, pt, step, inputs):
        op = step["op"]
        src = inputs[0]
        if op == "transfer" and pt.m.same_as is None and inputs[0].m.same_as != inputs[1].m.id:
            pass
        # O16.1: data, names and order identical before and after
        for rep in sorted(pt.real):
            if rep not in src.real:
                continue
            a = self.observe(src, rep, [])
            b = self.observe(pt, rep, [])
            if a[0] != "ok":
                continue
            if b[0] != "ok":
                self.violate("C16", "O16.1", f"`{op}` result does not export on {rep}: {b[1]}: {str(b[2])[:120]}", op=op, rep=rep, grouped=bool(src.m.grouping))
            ordered = src.m.order_fixed and op in ("collect", "recompute", "clone", "transfer")
            ca = (a[1], canon_rows(a[2], ordered))
            cb = (b[1], canon_rows(b[2], ordered))
            if ca != cb:
                self.violate(
                    "C16",
                    "O16.1",
                    f"`{op}` changed the exported table on {rep}: {a[1]} x{len(a[2])} -> {b[1]} x{len(b[2])}; first diff {self.first_diff(ca[1], cb[1])}",
                    op=op,
                    rep=rep,
                    kind="names" if a[1] != b[1] else "rows",
                    hidden=len(src.m.hidden()) > 0,
                    grouped=bool(src.m.grouping),
                )
        # O16.5: re-rooting commutes with a later verb that depends on the grouping state (by-name
        # window aggregate): same frame from the origin and from the re-rooted table
        hidden_group = any(src.m.name_of_tok(t) is None for t in src.m.grouping)
        if src.m.grouping and pt.m.grouping and not (op == "collect" and (hidden_group or not step.get("keep", True))):
            T = self.model.toks
            ints = [n for n, t in src.m.visible if T[t].kind == "int" and pt.m.tok_of_name(n) is not None]
            if ints:
                name = ints[0]
                self.note("reroot_commutation_checked")
                for rep in sorted(pt.real):
                    t_new, t_old = pt.real[rep], src.real.get(rep)
                    if t_old is None:
                        continue
                    ra = self.call(lambda: self.export(t_old >> pdt.mutate(c__=pdt.C[name].sum())))
                    rb = self.call(lambda: self.export(t_new >> pdt.mutate(c__=pdt.C[name].sum())))
                    if ra[0] != "ok":
                        continue
                    if rb[0] != "ok" and rb[1] in ("SubqueryError", "NotSupportedError"):
                        continue
                    if rb[0] != "ok":
                        self.violate("C16", "O16.5", f"a grouped window aggregate after `{op}` raised {rb[1]} on {rep} (it works on the origin)", rep=rep, op=op)
                    ca = (list(ra[1].columns), canon_rows(ra[1].rows(), False))
                    cb = (list(rb[1].columns), canon_rows(rb[1].rows(), False))
                    if ca != cb:
                        self.violate(
                            "C16",
                            "O16.5",
                            f"`{op}` changed the grouping state: sum of `{name}` over the groups differs between the origin and the re-rooted table on {rep}; first diff {self.first_diff(ca[1], cb[1])}",
                            rep=rep,
                            op=op,
                            hidden_group=hidden_group,
                        )
        # O16.4: grouping state survives collect()
        if op == "collect" and src.m.grouping:
            if not step.get("keep", True):
                self.note("collect_fresh_grouped")
            self.note("collect_grouped")
            for rep in sorted(pt.real):
                t_new, t_old = pt.real[rep], src.real.get(rep)
                if t_old is None:
                    continue
                ra = self.call(lambda: self.export(t_old >> pdt.summarize(c__=pdt.count())))
                rb = self.call(lambda: self.export(t_new >> pdt.summarize(c__=pdt.count())))
                if ra[0] != "ok":
                    continue
                if rb[0] != "ok":
                    self.violate("C16", "O16.4", f"summarize after collect() of a grouped table raised {rb[1]}", rep=rep)
                ca = (list(ra[1].columns), canon_rows(ra[1].rows(), False))
                cb = (list(rb[1].columns), canon_rows(rb[1].rows(), False))
                if ca != cb:
                    self.violate("C16", "O16.4", f"grouping state lost by collect(): summarize gives {cb[0]} x{len(cb[1])} instead of {ca[0]} x{len(ca[1])}", rep=rep)
