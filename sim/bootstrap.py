"""Interpreter-level bootstrap: must be imported before anything from pydiverse.transform.

Owns the seams that only take effect at interpreter start:
  * sys.path -> /repo/src (the current working tree is what is checked)
  * Dtype-hash salt (set[Dtype] / dict[Dtype] order) - installed after pydiverse.common is
    imported and BEFORE pydiverse.transform builds its Dtype-keyed registries
  * optional driver modules blocked in sys.modules
PYTHONHASHSEED / POLARS_MAX_THREADS are environment variables of the spawned interpreter.
"""

import os
import sys

REPO_SRC = os.environ.get("PDT_VERIF_REPO_SRC", "/repo/src")
if REPO_SRC not in sys.path:
    sys.path.insert(0, REPO_SRC)

_SALT = int(os.environ.get("PDT_VERIF_DTYPE_SALT", "0"))
_BLOCK = os.environ.get("PDT_VERIF_BLOCK_DRIVERS", "0") == "1"

if "pydiverse.transform" in sys.modules:  # pragma: no cover
    raise RuntimeError("sim.bootstrap must be imported before pydiverse.transform")

if _BLOCK:
    for _m in ("duckdb", "duckdb_engine", "ibm_db_sa", "ibm_db"):
        sys.modules[_m] = None  # import -> ImportError


def _install_dtype_salt(salt: int) -> None:
    import pydiverse.common.dtypes as D

    def mk(orig, qn):
        def __hash__(self):
            return hash((salt, qn, orig(self)))

        return __hash__

    def base_hash(self):
        return hash((salt, type(self).__qualname__))

    D.Dtype.__hash__ = base_hash
    for cls in (D.Decimal, D.String, D.List, D.Enum):
        orig = cls.__dict__.get("__hash__")
        if orig is not None:
            cls.__hash__ = mk(orig, cls.__qualname__)


def _install_post_import_patch(salt: int) -> None:
    """Patch Const/Tyvar.__hash__ right after tree/types.py is executed (before any
    Dtype-keyed registry containing them is built): their stock hash mixes in
    hash(<class object>) which is address based (ASLR)."""
    import importlib.abc
    import importlib.machinery

    target = "pydiverse.transform._internal.tree.types"

    class _Loader(importlib.abc.Loader):
        def __init__(self, inner):
            self.inner = inner

        def create_module(self, spec):
            return self.inner.create_module(spec)

        def exec_module(self, module):
            self.inner.exec_module(module)

            def const_hash(self):
                return hash((salt, "Const", self.base))

            def tyvar_hash(self):
                return hash((salt, "Tyvar", self.name))

            module.Const.__hash__ = const_hash
            module.Tyvar.__hash__ = tyvar_hash

    class _Finder(importlib.abc.MetaPathFinder):
        def find_spec(self, name, path, target_=None):
            if name != target:
                return None
            spec = importlib.machinery.PathFinder.find_spec(name, path)
            if spec is None:
                return None
            spec.loader = _Loader(spec.loader)
            return spec

    sys.meta_path.insert(0, _Finder())


# The salt is always installed (salt 0 is the reference configuration): this removes the
# address-based component from every Dtype hash, so set[Dtype] order is a function of
# (PYTHONHASHSEED, salt) only.
_install_dtype_salt(_SALT)
_install_post_import_patch(_SALT)

import pydiverse.transform as pdt  # noqa: E402

if not os.path.realpath(pdt.__file__).startswith(os.path.realpath(REPO_SRC) + os.sep):
    raise RuntimeError(f"pydiverse.transform imported from {pdt.__file__}, expected under {REPO_SRC}")

from pydiverse.transform._internal.tree import types as _T  # noqa: E402

assert _T.Const.__hash__.__name__ == "const_hash", "post-import patch did not run"
