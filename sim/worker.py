"""Worker: one fresh interpreter = one interpreter-level environment (PYTHONHASHSEED, thread
count, dtype-hash salt, blocked drivers).  Runs a list of seeds sequentially; every run tears
its world down completely.  usage: python sim/worker.py <job.json> <out.jsonl>"""

import faulthandler
import json
import os
import sys
import time

sys.path.insert(0, os.path.dirname(os.path.dirname(os.path.abspath(__file__))))
faulthandler.enable()


def main():
    job = json.load(open(sys.argv[1]))
    out = open(sys.argv[2], "w")
    faulthandler.dump_traceback_later(job.get("hard_timeout", 600), exit=True)
    import sim.bootstrap  # noqa: F401
    from sim.findings import load_findings, match_finding

    kind = job["kind"]
    findings = load_findings()
    deadline = time.time() + job.get("budget_s", 120)
    t_import = time.time()
    if kind == "hist":
        from sim.hist import run_cfg
        from sim.minimise import minimise
        from sim.profiles import make_cfg

        states = set()
        n_min = 0
        for seed in job["seeds"]:
            if time.time() > deadline:
                out.write(json.dumps(dict(type="truncated", seed=seed)) + "\n")
                break
            cfg = make_cfg(seed, job["profile"], job["tier"], population=job.get("population", "clean"))
            cfg.update(job.get("cfg_override", {}))
            r = run_cfg(cfg)
            states.update(r.pop("states"))
            rec = dict(
                type="run", seed=seed, digest=r["digest"], shape=r["shape"], stats=r["stats"], reach=r["reach"],
                wall=r["wall"], n_steps=len(r["steps"]), uuid_calls=r["uuid_calls"], uuid_span=r["uuid_span"],
                harness_error=r["harness_error"], incidents=r["incidents"], replicas=cfg["replicas"],
                population=cfg.get("population"),
            )  # fmt: skip
            if seed in job.get("twin_seeds", ()):
                rec["log"] = r["log"]
                rec["cfg"] = r["cfg"]
                rec["steps"] = r["steps"]
            if job.get("sample_steps") and seed in job["sample_steps"]:
                rec["steps"] = r["steps"]
            v = r["violation"]
            if v:
                # immediate re-run of the same seed: a violation that does not come back points at
                # nondeterminism (in the system under test or in the harness) and is reported as such
                r_again = run_cfg(cfg)
                v2 = r_again["violation"]
                rec["reproducible"] = bool(v2) and (v2["property"], v2["oracle"], v2["step"]) == (v["property"], v["oracle"], v["step"])
                rec["violation"] = v
                rec["known"] = match_finding(findings, v)
                rec["cfg"] = r["cfg"]
                rec["steps"] = r["steps"]
                if n_min < job.get("max_minimise", 3) and (rec["known"] is None or n_min == 0):
                    n_min += 1
                    c2, s2, tries, ok = minimise(run_cfg, r["cfg"], r["steps"], (v["property"], v["oracle"]), job.get("min_budget_s", 20))
                    if ok:
                        r2 = run_cfg(c2, s2)
                        rec["min"] = dict(cfg=c2, steps=s2, tries=tries, violation=r2["violation"], digest=r2["digest"])
            out.write(json.dumps(rec, default=str) + "\n")
            out.flush()
        out.write(json.dumps(dict(type="summary", states=sorted(states), import_s=t_import - T0)) + "\n")
    elif kind == "replay":
        from sim.hist import run_cfg

        r = run_cfg(job["cfg"], job["steps"])
        out.write(json.dumps(dict(type="replay", violation=r["violation"], digest=r["digest"], harness_error=r["harness_error"], log=r["log"]), default=str) + "\n")
    elif kind in ("conf_types", "conf_sql"):
        import importlib

        mod = importlib.import_module("sim." + kind)
        mod.worker(job, out)
    else:
        raise SystemExit("unknown job kind " + kind)
    out.close()
    faulthandler.cancel_dump_traceback_later()


T0 = time.time()
if __name__ == "__main__":
    main()
