"""Parent side: plans interpreter groups, spawns workers (fresh interpreters, never fork),
aggregates results, classifies violations (VIOLATION / KNOWN-FINDING / HARNESS-ERROR), writes
replay files and the evidence file."""

import collections
import hashlib
import json
import os
import subprocess
import sys
import tempfile
import time

ROOT = os.path.dirname(os.path.dirname(os.path.abspath(__file__)))
PY = "/venv/bin/python"
OUT = os.path.join(ROOT, "out")

PROP_PROFILE = {"C06": "join", "C08": "subq", "C09": "refs", "C10": "sharing", "C11": "metadata", "C14": "rejects", "C16": "reroot"}

HIST_TIERS = {
    "quick": dict(groups=16, waves=1, runs_per_group=150, budget_s=75, twin=10, min_budget_s=12),
    "thorough": dict(groups=16, waves=6, runs_per_group=260, budget_s=420, twin=20, min_budget_s=30),
}

FAULT_FRACTION = {"sharing": 0.5}


def h(*parts) -> int:
    return int(hashlib.sha1(":".join(map(str, parts)).encode()).hexdigest()[:12], 16)


def group_env(verif_seed: int, g: int) -> dict:
    """interpreter-level environment vector of group g (group 0 is the reference configuration)"""
    if g == 0:
        return dict(PYTHONHASHSEED="0", POLARS_MAX_THREADS="1", PDT_VERIF_DTYPE_SALT="0", PDT_VERIF_BLOCK_DRIVERS="0")
    x = h("env", verif_seed, g)
    return dict(
        PYTHONHASHSEED=str(1 + x % 4000),
        POLARS_MAX_THREADS=str([1, 4][(x >> 12) % 2]),
        PDT_VERIF_DTYPE_SALT=str((x >> 16) % 1000),
        PDT_VERIF_BLOCK_DRIVERS=str((x >> 28) % 2),
    )


_JOBDIR = None


def jobdir() -> str:
    """job / output files of this invocation: one directory per parent process, so that two checks
    running at the same time (e.g. a soak and a manual run) never read each other's files"""
    global _JOBDIR
    if _JOBDIR is None:
        _JOBDIR = os.path.join(OUT, "jobs", str(os.getpid()))
        os.makedirs(_JOBDIR, exist_ok=True)
        if not os.environ.get("PDT_VERIF_KEEP_JOBS"):
            import atexit
            import shutil

            atexit.register(shutil.rmtree, _JOBDIR, True)
    return _JOBDIR


def spawn(job: dict, env_vec: dict, tag: str):
    jf = os.path.join(jobdir(), f"{tag}.job.json")
    of = os.path.join(jobdir(), f"{tag}.out.jsonl")
    ef = os.path.join(jobdir(), f"{tag}.err")
    json.dump(job, open(jf, "w"))
    env = dict(os.environ)
    env.update(env_vec)
    env["PYTHONDONTWRITEBYTECODE"] = "1"
    env.pop("PYTHONPATH", None)
    p = subprocess.Popen([PY, os.path.join(ROOT, "sim", "worker.py"), jf, of], env=env, stdout=subprocess.DEVNULL, stderr=open(ef, "w"), cwd=ROOT)
    return dict(proc=p, out=of, err=ef, job=job, env=env_vec, tag=tag, t0=time.time())


def wait_all(procs, hard_timeout):
    errors = []
    for pr in procs:
        left = max(1, hard_timeout - (time.time() - pr["t0"]))
        try:
            rc = pr["proc"].wait(timeout=left)
        except subprocess.TimeoutExpired:
            pr["proc"].kill()
            rc = -9
        pr["rc"] = rc
        if rc != 0:
            tail = ""
            try:
                tail = open(pr["err"]).read()[-1500:]
            except OSError:
                pass
            errors.append(f"worker {pr['tag']} exit {rc}: {tail}")
    return errors


def read_jsonl(path):
    out = []
    if os.path.exists(path):
        for line in open(path):
            line = line.strip()
            if line:
                try:
                    out.append(json.loads(line))
                except json.JSONDecodeError:
                    pass
    return out


def first_log_diff(a, b):
    for i, (x, y) in enumerate(zip(a, b, strict=False)):
        if x != y:
            return i, x, y
    return min(len(a), len(b)), None, None


def write_replay(prop, seed, payload) -> str:
    d = os.path.join(OUT, "replays", prop)
    os.makedirs(d, exist_ok=True)
    path = os.path.join(d, f"{seed}.json")
    json.dump(payload, open(path, "w"), indent=1, default=str)
    return path


def run_hist_check(prop: str, tier: str, verif_seed: int, *, tier_key=None, extra_evidence=None, extra_violations=0, extra_known=None) -> int:
    t0 = time.time()
    profile = PROP_PROFILE[prop]
    T = HIST_TIERS[tier_key or tier]
    G = T["groups"]
    all_runs = []
    harness_errors = []
    states = set()
    envs_used = []
    twin_records = collections.defaultdict(list)
    n_planned = 0
    truncated = 0
    fault_frac = FAULT_FRACTION.get(profile, 0.3)

    for wave in range(T["waves"]):
        procs = []
        plan = {}
        for g in range(G):
            gid = wave * G + g
            n = T["runs_per_group"]
            plan[g] = [h(verif_seed, profile, tier, gid, i) for i in range(n)]
        for g in range(G):
            gid = wave * G + g
            env = group_env(verif_seed, gid)
            envs_used.append(env)
            own = plan[g]
            n_fault = int(len(own) * fault_frac)
            twins = plan[(g + 1) % G][n_fault : n_fault + T["twin"]]
            jobs = []
            # two populations, reported separately: the first n_fault seeds inject faults
            job = dict(
                kind="hist", profile=profile, tier=tier, seeds=None, budget_s=T["budget_s"], hard_timeout=T["budget_s"] * 2 + 120,
                min_budget_s=T["min_budget_s"], max_minimise=2,
            )  # fmt: skip
            jf = dict(job, seeds=own[:n_fault], population="fault")
            jc = dict(job, seeds=own[n_fault:] + twins, population="clean", twin_seeds=twins + own[n_fault : n_fault + T["twin"]], keep_log_for_twins=True, sample_steps=own[n_fault : n_fault + 1])
            n_planned += len(jf["seeds"]) + len(jc["seeds"])
            procs.append(spawn(jf, env, f"{prop}-{tier}-w{wave}-g{g}-fault"))
            procs.append(spawn(jc, env, f"{prop}-{tier}-w{wave}-g{g}-clean"))
            if profile == "sharing":
                # third population: one asynchronous exception per run at a seeded line event
                n_int = T["runs_per_group"] // 10
                ji = dict(job, seeds=[h(verif_seed, profile, tier, gid, "int", i) for i in range(n_int)], population="interrupt")
                n_planned += n_int
                procs.append(spawn(ji, env, f"{prop}-{tier}-w{wave}-g{g}-interrupt"))
        harness_errors += wait_all(procs, T["budget_s"] * 2 + 180)
        for pr in procs:
            for rec in read_jsonl(pr["out"]):
                if rec["type"] == "run":
                    rec["env"] = pr["env"]
                    all_runs.append(rec)
                    if rec.get("harness_error"):
                        harness_errors.append(f"seed {rec['seed']}: {rec['harness_error'][-800:]}")
                elif rec["type"] == "summary":
                    states.update(rec["states"])
                elif rec["type"] == "truncated":
                    truncated += 1

    return finish_hist(prop, profile, tier, verif_seed, all_runs, harness_errors, states, envs_used, n_planned, truncated, t0, extra_evidence, extra_violations, extra_known)


def finish_hist(prop, profile, tier, verif_seed, all_runs, harness_errors, states, envs_used, n_planned, truncated, t0, extra_evidence=None, extra_violations=0, extra_known=None):
    from sim.findings import load_findings

    findings = load_findings()
    by_seed = collections.defaultdict(list)
    for r in all_runs:
        by_seed[(r["seed"], r.get("population"))].append(r)

    violations = []  # (record, kind)
    # cross-environment oracle: the same seed in two interpreter environments gives the same event log
    n_twin_pairs = 0
    for (seed, pop), recs in by_seed.items():
        if len(recs) >= 2:
            n_twin_pairs += 1
            a, b = recs[0], recs[1]
            if a["digest"] != b["digest"] and not a.get("violation") and not b.get("violation"):
                violations.append(
                    dict(
                        rec=a,
                        v=dict(
                            property=prop,
                            oracle="env",
                            what=f"same seed, different event log under environments {a['env']} and {b['env']}",
                            step=None,
                            op=None,
                            features=dict(kind="env_digest"),
                        ),
                        env_b=b["env"],
                    )
                )
    for r in all_runs:
        if r.get("violation"):
            violations.append(dict(rec=r, v=r["violation"]))

    # classify
    out_lines = []
    n_viol = 0
    known_hits = collections.Counter()
    seen_sig = set()
    for item in violations:
        r, v = item["rec"], item["v"]
        if v["property"] != prop:
            continue
        known = r.get("known") if v.get("oracle") != "env" else None
        if known:
            known_hits[known] += 1
            continue
        n_viol += 1
        sig = (v["oracle"], v.get("op"), json.dumps(v.get("features", {}), sort_keys=True))
        if sig in seen_sig and len(seen_sig) > 0:
            continue
        seen_sig.add(sig)
        mn = r.get("min")
        payload = dict(
            property=prop,
            oracle=v["oracle"],
            seed=r["seed"],
            env=r["env"],
            env_b=item.get("env_b"),
            cfg=(mn or r).get("cfg"),
            steps=(mn or r).get("steps"),
            expected=dict(step=(mn["violation"] if mn and mn.get("violation") else v).get("step"), oracle=v["oracle"], property=prop, what=v["what"]),
            original=dict(n_steps=r.get("n_steps"), what=v["what"], features=v.get("features")),
            minimised=bool(mn),
            reproducible_on_immediate_rerun=r.get("reproducible"),
        )
        path = write_replay(prop, r["seed"], payload)
        out_lines.append(f"VIOLATION property={prop} replay={path}")
        out_lines.append(f"  oracle={v['oracle']} op={v.get('op')} seed={r['seed']} steps={len(payload['steps'] or [])}: {v['what'][:300]}")
        if r.get("reproducible") is False:
            out_lines.append("  NOTE: the same seed did NOT reproduce this on an immediate re-run in the same interpreter: nondeterminism (see DESIGN.md 12.1 for the two cases met so far, both in the library)")
    for k, n in (extra_known or {}).items():
        known_hits[k] += n
    for f in findings:
        if f.get("status") == "open" and f["property"] == prop:
            out_lines.append(f"KNOWN-FINDING: property={prop} {f['id']}: {f['what']} (hit {known_hits.get(f['id'], 0)}x in this run)")

    # evidence
    ev = build_hist_evidence(prop, profile, tier, verif_seed, all_runs, states, envs_used, n_planned, truncated, n_viol + extra_violations, known_hits, harness_errors, n_twin_pairs, time.time() - t0)
    if extra_evidence:
        ev["coverage"].update(extra_evidence)
        if "workload_i" in extra_evidence:
            ev["wall_s"] = round(ev["wall_s"] + extra_evidence["workload_i"].get("wall_s", 0), 2)
    os.makedirs(os.path.join(ROOT, "evidence"), exist_ok=True)
    json.dump(ev, open(os.path.join(ROOT, "evidence", f"{prop}.json"), "w"), indent=1, default=str)

    for ln in out_lines:
        print(ln)
    n_runs = len(all_runs)
    print(f"{prop} [{profile}/{tier}] runs={n_runs} planned={n_planned} truncated={truncated} violations={n_viol} known={sum(known_hits.values())} harness_errors={len(harness_errors)} wall={time.time() - t0:.0f}s")
    if harness_errors:
        for e in harness_errors[:5]:
            print("HARNESS-ERROR", e[-600:])
        # a violation that was found and written as a replay file stands; harness errors next to
        # it are reported, too (a broken library can also break the harness) - never a pass
        return 1 if (n_viol + extra_violations) else 2
    if n_runs == 0:
        print("HARNESS-ERROR no run completed")
        return 2
    return 1 if n_viol else 0


def build_hist_evidence(prop, profile, tier, verif_seed, runs, states, envs, n_planned, truncated, n_viol, known_hits, harness_errors, n_twin_pairs, wall):
    stats = collections.Counter()
    reach = collections.Counter()
    shapes = set()
    nontrivial_shapes = set()
    pops = collections.Counter()
    uuid_calls = 0
    uuid_span = 0
    steps = 0
    incidents = []
    for r in runs:
        stats.update(r["stats"])
        reach.update(r["reach"])
        shapes.add(r["shape"])
        pops[r.get("population")] += 1
        uuid_calls += r["uuid_calls"]
        uuid_span = max(uuid_span, int(r["uuid_span"]))
        steps += r["n_steps"]
        nt = r["stats"].get("oracle_evals", 0) + r["stats"].get("observations", 0) + r["stats"].get("rejections_expected", 0) >= 3 and r["stats"].get("tables", 0) >= 3
        if nt:
            nontrivial_shapes.add(r["shape"])
        for inc in r.get("incidents", []):
            if len(incidents) < 12:
                incidents.append(inc)
    samples = [dict(seed=r["seed"], env=r["env"], steps=r["steps"][:40]) for r in runs if r.get("steps") and not r.get("violation")][:3]
    if not samples:
        samples = [dict(seed=r["seed"], env=r["env"], n_steps=r["n_steps"], shape=r["shape"]) for r in runs[:3]]
    fault_kinds = {k[6:]: v for k, v in reach.items() if k.startswith("fault:")}
    fault_kinds["reject (ill-formed call injected)"] = stats.get("rejections_expected", 0)
    fault_kinds["subquery_error (SQL refusal)"] = stats.get("subquery_error", 0)
    fault_kinds["engine_exec/connect fired"] = stats.get("engine_faults_fired", 0)
    fault_kinds["interrupt (async exception inside a call)"] = stats.get("interrupted_calls", 0)
    ev = dict(
        property_id=prop,
        tier=tier,
        seed=verif_seed,
        level="exploration",
        coverage=dict(
            evaluations=len(runs),
            distinct_nontrivial=len(nontrivial_shapes),
            rule=(
                "one evaluation = one simulated history (seeded op/fault stream of the history machine, profile "
                f"'{profile}') executed against the real library on the polars and/or sqlite replica and against the "
                "reference model; distinct = distinct hash of the (op kind, outcome) sequence of the event log; "
                "non-trivial = the run produced >= 3 tables and >= 3 oracle evaluations / observations / injected rejections"
            ),
            samples=samples,
            exhaustive=False,
            steps_executed=steps,
            planned_runs=n_planned,
            runs_truncated_by_budget=truncated,
            runs_per_hour=round(len(runs) / max(wall, 1e-9) * 3600),
            seeds_per_hour=round(len({r["seed"] for r in runs}) / max(wall, 1e-9) * 3600),
            simulated_time=dict(
                note="the only clock in this library is uuid1(); simulated time is reported as steps and identity-clock ticks",
                steps=steps,
                identity_clock_ticks=uuid_calls,
                identity_clock_max_span=uuid_span,
            ),
            populations=dict(pops),
            faults_fired=fault_kinds,
            reach_probes={k: v for k, v in sorted(reach.items()) if not k.startswith("fault:")},
            distinct_model_state_op_pairs=len(states),
            distinct_run_shapes=len(shapes),
            interpreter_environments=len({json.dumps(e, sort_keys=True) for e in envs}),
            environment_samples=envs[:4],
            cross_environment_twin_pairs=n_twin_pairs,
            oracle_stats={k: v for k, v in sorted(stats.items()) if not k.startswith("incidental") and not k.startswith("exc:")},
            incidental={k: v for k, v in sorted(stats.items()) if k.startswith("incidental") or k.startswith("exc:")},
            incident_samples=incidents,
            known_findings_hit=dict(known_hits),
            components=dict(
                real=["pydiverse.transform (whole library, from /repo/src)", "polars", "SQLAlchemy", "sqlite3 in-memory engine"],
                stub=["identity clock (uuid.uuid1 replacement)", "engine fault hooks (SQLAlchemy events raising sqlite3.OperationalError)", "Dtype.__hash__ salt", "user call sites (sessions)"],
            ),
            harness_errors=len(harness_errors),
        ),
        assumptions=[
            "values stay inside the defined-result domain of DESIGN.md section 4 (ints, opaque strings, total sort keys)",
            "the reference model transcribes the documented verb rules (DESIGN.md section 3.3)",
            "sampled search: a clean batch is evidence, not proof",
        ],
        wall_s=round(wall, 2),
        violations=n_viol,
    )
    return ev


def replay_file(path: str) -> int:
    payload = json.load(open(path))
    if payload.get("kind") in ("conf_types", "conf_sql"):
        import importlib

        sys.path.insert(0, ROOT)
        mod = importlib.import_module("sim." + payload["kind"] + "_parent")
        return mod.replay(payload)
    envs = [payload["env"]] + ([payload["env_b"]] if payload.get("env_b") else [])
    results = []
    for k, env in enumerate(envs):
        pr = spawn(dict(kind="replay", cfg=payload["cfg"], steps=payload["steps"], hard_timeout=300), env, f"replay-{os.getpid()}-{k}")
        errs = wait_all([pr], 300)
        recs = read_jsonl(pr["out"])
        if errs or not recs:
            print("HARNESS-ERROR replay worker failed", errs)
            return 2
        results.append(recs[0])
    prop = payload["property"]
    if payload["oracle"] == "env":
        if len(results) == 2 and results[0]["digest"] != results[1]["digest"]:
            i, x, y = first_log_diff(results[0]["log"], results[1]["log"])
            print(f"VIOLATION property={prop} replay={path}")
            print(f"  reproduced: event logs differ at line {i}: {x} | {y}")
            return 1
        print("not reproduced: event logs identical in both environments")
        return 0
    r = results[0]
    if r.get("harness_error"):
        print("HARNESS-ERROR", r["harness_error"][-800:])
        return 2
    v = r.get("violation")
    if v and (v["property"], v["oracle"]) == (prop, payload["oracle"]):
        print(f"VIOLATION property={prop} replay={path}")
        print(f"  reproduced at step {v['step']}: {v['what'][:300]}")
        return 1
    if v:
        print(f"HARNESS-ERROR replay-mismatch: a different violation fired: {v['property']} {v['oracle']}: {v['what'][:200]}")
        return 2
    print("not reproduced: the recorded history passes on this tree")
    return 0
