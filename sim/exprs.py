"""Expression recipes: JSON  ->  real ColExpr (per replica)  and  ->  model token.

refarg   {"r": refid} pooled Col object | {"c": name} C.name | {"o": name} t[name] of the verb's table
         | {"ro": name} right[name] (join only)
expr     {"e": "ref"|"tag"|"agg"|"shift"|"rown"|"case"|"wcase"|"add"|"lit"|"pool", ...}
pred     {"p": "cmp"|"isnull"|"eq"|"eqx"|"ineq"|"and"|"true", ...}
order    {"a": refarg, "desc": bool, "nulls": "first"|"last"|None}
"""

import sim.bootstrap  # noqa: F401
import pydiverse.transform as pdt
from sim.model import MTable, Model, Tok
from sim.world import OFF


class OutOfScope(Exception):
    """model: the refarg does not denote a column of the table"""


class NotTotal(Exception):
    """model: a window function would be ordered by keys that do not identify the rows of this
    table (ties): its value is not defined (DESIGN.md section 4.2) - the step is not executed"""


def check_total(rec, cx):
    toks = [cx.resolve(o["a"]) for o in rec.get("ar") or []]
    rowid = cx.mt.rowid
    if not rowid or not all(t in toks for t in rowid):
        raise NotTotal(rec)


# ---------------------------------------------------------------------------------------
# model side
# ---------------------------------------------------------------------------------------


class MCtx:
    def __init__(self, model: Model, mt: MTable, ref_toks: dict, exprs: dict, right: MTable | None = None):
        self.model = model
        self.mt = mt
        self.ref_toks = ref_toks  # refid -> tokid
        self.exprs = exprs  # exprid -> recipe
        self.right = right

    def resolve(self, a) -> str:
        mt = self.mt
        if "r" in a:
            tok = self.ref_toks.get(a["r"])
            if tok is None:
                raise KeyError(a["r"])
            if tok in mt.scope or (self.right is not None and tok in self.right.scope):
                return tok
            raise OutOfScope(a)
        if "c" in a or "o" in a:
            tok = mt.tok_of_name(a.get("c", a.get("o")))
            if tok is None:
                raise OutOfScope(a)
            return tok
        if "ro" in a:
            tok = self.right.tok_of_name(a["ro"])
            if tok is None:
                raise OutOfScope(a)
            return tok
        raise AssertionError(a)

    def tok(self, a) -> Tok:
        return self.model.toks[self.resolve(a)]

    def is_opaque(self, tokid: str) -> bool:
        return tokid in self.mt.opaque or (self.right is not None and tokid in self.right.opaque)


def refargs_of(rec, exprs: dict) -> list:
    """all refargs appearing in an expression / predicate / order recipe"""
    out = []

    def walk(x):
        if isinstance(x, dict):
            if "e" in x and x["e"] == "pool":
                walk(exprs[x["x"]])
                return
            if any(k in x for k in ("r", "c", "o", "ro")) and not any(k in x for k in ("e", "p", "a", "op")):
                out.append(x)
                return
            for v in x.values():
                walk(v)
        elif isinstance(x, list):
            for v in x:
                walk(v)

    walk(rec)
    return out


def expr_ftype(rec, exprs: dict) -> str:
    """'ew' | 'agg' | 'win'  (syntactic)"""
    e = rec["e"]
    if e == "pool":
        return expr_ftype(exprs[rec["x"]], exprs)
    if e == "agg":
        return "agg"
    if e in ("shift", "rown", "wcase"):
        return "win"
    if e == "case":
        k = {expr_ftype(rec["a"], exprs), expr_ftype(rec["b"], exprs)}
        return "win" if "win" in k else "agg" if "agg" in k else "ew"
    if e == "arith":
        return expr_ftype(rec["a"], exprs)
    return "ew"


def expr_tok(rec, cx: MCtx, new_id: str, *, in_summarize: bool = False) -> Tok:
    """Model semantics: which cells the new column holds."""
    e = rec["e"]
    if e == "pool":
        return expr_tok(cx.exprs[rec["x"]], cx, new_id, in_summarize=in_summarize)
    if e == "lit":
        return Tok(new_id, "const", const=rec["v"])
    if e == "litcast":
        return Tok(new_id, "const", const=rec["v"])
    if e == "add":
        cx.resolve(rec["a"])
        cx.resolve(rec["b"])
        return Tok(new_id, "opaque", nullable=True)
    if e == "rown":
        for o in rec.get("ar") or []:
            cx.resolve(o["a"])
        for p in rec.get("pb") or []:
            cx.resolve(p)
        check_total(rec, cx)
        return Tok(new_id, "opaque")
    if e == "case":
        pred_check(rec["p"], cx)
        ta = expr_tok(rec["a"], cx, new_id, in_summarize=in_summarize)
        tb = expr_tok(rec["b"], cx, new_id, in_summarize=in_summarize)
        if ta.kind == "int" and tb.kind == "int" and (ta.T, ta.c, ta.mod) == (tb.T, tb.c, tb.mod):
            lin = ta.lineage if ta.lineage == tb.lineage else None
            return ta.derive(
                new_id, offs=tuple(sorted(set(ta.offs) | set(tb.offs))), lineage=lin, nullable=ta.nullable or tb.nullable
            )
        return Tok(new_id, "opaque", nullable=True)
    if e == "wcase":
        # a case expression with constant branches whose CONDITION holds a window / aggregate function
        expr_tok(rec["w"], cx, new_id, in_summarize=in_summarize)
        return Tok(new_id, "opaque")
    if e == "arith":
        # opaque arithmetic wrapper around a sub-expression (keeps its function type)
        expr_tok(rec["a"], cx, new_id, in_summarize=in_summarize)
        return Tok(new_id, "opaque", nullable=True)

    src_id = cx.resolve(rec["a"])
    src = cx.model.toks[src_id]
    opaque = cx.is_opaque(src_id) or src.kind == "opaque"
    if e == "ref":
        if opaque:
            return Tok(new_id, "opaque", nullable=True)
        return src.derive(new_id)
    if e == "tag":
        if opaque or src.kind != "int":
            return Tok(new_id, "opaque", nullable=True)
        return src.derive(new_id, offs=tuple(o + rec["k"] for o in src.offs))
    if e == "agg":
        for p in rec.get("pb") or []:
            cx.resolve(p)
        if rec["f"] in ("min", "max") and not opaque and src.kind in ("int", "str"):
            return src.derive(new_id, lineage=None, nullable=True)
        if rec["f"] in ("min", "max") and src.kind == "const":
            return src.derive(new_id, nullable=True)
        return Tok(new_id, "opaque", nullable=True)
    if e == "shift":
        for o in rec.get("ar") or []:
            cx.resolve(o["a"])
        for p in rec.get("pb") or []:
            cx.resolve(p)
        check_total(rec, cx)
        if opaque or src.kind not in ("int", "str"):
            return Tok(new_id, "opaque", nullable=True)
        return src.derive(new_id, lineage=None, nullable=True)
    raise AssertionError(rec)


def pred_check(rec, cx: MCtx):
    """raises OutOfScope if a refarg of the predicate is not resolvable"""
    p = rec["p"]
    if p == "true":
        return
    if p == "and":
        for q in rec["ps"]:
            pred_check(q, cx)
        return
    cx.resolve(rec["a"])
    if "b" in rec:
        cx.resolve(rec["b"])


# ---------------------------------------------------------------------------------------
# real side
# ---------------------------------------------------------------------------------------


class RCtx:
    def __init__(self, rep: str, table, refs: dict, exprs: dict, right=None):
        self.rep = rep
        self.table = table  # real pdt.Table the verb is applied to
        self.refs = refs  # refid -> {rep: Col}
        self.exprs = exprs  # exprid -> {rep: ColExpr}
        self.right = right


def real_ref(a, rx: RCtx):
    if "r" in a:
        from sim.machine import Skip

        d = rx.refs.get(a["r"])
        if d is None or rx.rep not in d:
            raise Skip(f"reference {a['r']} does not exist on replica {rx.rep}")
        return d[rx.rep]
    if "c" in a:
        return getattr(pdt.C, a["c"])
    if "o" in a:
        return rx.table[a["o"]]
    if "ro" in a:
        return rx.right[a["ro"]]
    raise AssertionError(a)


def real_order(o, rx: RCtx):
    e = real_ref(o["a"], rx)
    if o.get("neg"):
        e = -e  # a computed ordering key (the order stays total: negation is injective)
    if o.get("desc"):
        e = e.descending()
    if o.get("nulls") == "first":
        e = e.nulls_first()
    elif o.get("nulls") == "last":
        e = e.nulls_last()
    return e


def _ctx_kwargs(rec, rx: RCtx):
    kw = {}
    if rec.get("pb") is not None:
        kw["partition_by"] = [real_ref(p, rx) for p in rec["pb"]]
    if rec.get("ar") is not None:
        kw["arrange"] = [real_order(o, rx) for o in rec["ar"]]
    return kw


def real_expr(rec, rx: RCtx):
    e = rec["e"]
    if e == "pool":
        from sim.machine import Skip

        d = rx.exprs.get(rec["x"])
        if d is None or rx.rep not in d:
            raise Skip(f"expression {rec['x']} does not exist on replica {rx.rep}")
        return d[rx.rep]
    if e == "lit":
        return pdt.lit(rec["v"])
    if e == "litcast":
        # a column-free expression containing a cast (string numeral -> int, documented conversion)
        return pdt.lit(str(rec["v"])).cast(pdt.Int64())
    if e == "ref":
        return real_ref(rec["a"], rx)
    if e == "tag":
        return real_ref(rec["a"], rx) + rec["k"] * OFF
    if e == "add":
        return real_ref(rec["a"], rx) + real_ref(rec["b"], rx)
    if e == "arith":
        return real_expr(rec["a"], rx) + rec.get("k", 1)
    if e == "agg":
        col = real_ref(rec["a"], rx)
        return getattr(col, rec["f"])(**_ctx_kwargs(rec, rx))
    if e == "shift":
        col = real_ref(rec["a"], rx)
        return col.shift(rec.get("n", 1), **_ctx_kwargs(rec, rx))
    if e == "rown":
        return pdt.row_number(**_ctx_kwargs(rec, rx))
    if e == "case":
        return pdt.when(real_pred(rec["p"], rx)).then(real_expr(rec["a"], rx)).otherwise(real_expr(rec["b"], rx))
    if e == "wcase":
        return pdt.when(real_expr(rec["w"], rx) > rec["thr"]).then(1).otherwise(0)
    raise AssertionError(rec)


def real_pred(rec, rx: RCtx):
    if rec.get("wrap") == "case":
        # the predicate as a boolean case expression (not a comparison at the top of `on`)
        return pdt.when(_real_pred(rec, rx)).then(True).otherwise(False)
    return _real_pred(rec, rx)


def _real_pred(rec, rx: RCtx):
    p = rec["p"]
    if p == "true":
        return pdt.lit(True)
    if p == "and":
        ps = [real_pred(q, rx) for q in rec["ps"]]
        out = ps[0]
        for q in ps[1:]:
            out = out & q
        return out
    a = real_ref(rec["a"], rx)
    if p == "cmp":
        op = rec["op"]
        thr = rec["thr"]
        if op == "==self":
            return a == a  # an equality that reads one table only
        if op == "==" and rec.get("lf"):
            return pdt.lit(thr) == a  # literal written first
        return {">=": a >= thr, "<": a < thr, "==": a == thr, "!=": a != thr}[op]
    if p == "isnull":
        r = a.is_null()
        return ~r if rec.get("neg") else r
    b = real_ref(rec["b"], rx)
    if p == "eq":
        return a == b
    da, db = rec.get("da", 0), rec.get("db", 0)
    ea = a - da if da else a
    eb = b - db if db else b
    if p == "eqx":
        return ea == eb
    if p == "ineq":
        return {"<": ea < eb, "<=": ea <= eb, ">": ea > eb, ">=": ea >= eb}[rec["op"]]
    raise AssertionError(rec)


def py_pred(rec, val) -> bool | None:
    """Evaluate a predicate in Python on decoded cell values.  val(refarg) -> value | None.
    Three-valued: None = unknown (null operand)."""
    if rec.get("wrap") == "case":
        return _py_pred(rec, val) is True
    return _py_pred(rec, val)


def _py_pred(rec, val) -> bool | None:
    p = rec["p"]
    if p == "true":
        return True
    if p == "and":
        out = True
        for q in rec["ps"]:
            r = py_pred(q, val)
            if r is False:
                return False
            if r is None:
                out = None
        return out
    a = val(rec["a"])
    if p == "isnull":
        r = a is None
        return (not r) if rec.get("neg") else r
    if p == "cmp":
        if a is None:
            return None
        thr = rec["thr"]
        if rec["op"] == "==self":
            return True
        return {">=": a >= thr, "<": a < thr, "==": a == thr, "!=": a != thr}[rec["op"]]
    b = val(rec["b"])
    if a is None or b is None:
        return None
    if p == "eq":
        return a == b
    ea, eb = a - rec.get("da", 0), b - rec.get("db", 0)
    if p == "eqx":
        return ea == eb
    if p == "ineq":
        return {"<": ea < eb, "<=": ea <= eb, ">": ea > eb, ">=": ea >= eb}[rec["op"]]
    raise AssertionError(rec)
