"""Step handlers (op_*) of the history machine: each executes one recipe step on the model and
on every live replica of the real library, then hands over to the oracle families."""

import gc

import sim.bootstrap  # noqa: F401
import pydiverse.transform as pdt
from pydiverse.transform._internal.pipe.table import Table as _Table
from sim import exprs as X
from sim.machine import Expect, PTable, Skip, join_too_big
from sim.model import Tok
from sim.seams import UUID_REGIMES

OOS = ("ColumnNotFoundError",)


def strip_refarg(a):
    """{"n": name} (plain string) behaves like C.name for the model"""
    if "n" in a:
        return {"c": a["n"]}
    return a


class OpsMixin:
    # ------------------------------------------------------------------------------
    # generic producer driver
    # ------------------------------------------------------------------------------
    def produce(self, step, inputs, model_fn, real_fn, *, subject, recover_with_alias=True):
        new_id = f"t{step['i']}"
        expect = None
        new_m = None
        try:
            new_m = model_fn(new_id)
        except X.NotTotal:
            raise Skip("window order would not be total in this table") from None
        except X.OutOfScope:
            expect = Expect(step.get("_oos_classes", OOS), "out_of_scope")
        except Expect as e:
            expect = e
        reps = self.live_reps(*inputs)
        if not reps:
            raise Skip("no live replica")

        before = self.pool_fingerprint() if self.want_fp() else None
        results = {}
        recovered = False
        for rep in reps:
            reals = [p.real[rep] for p in inputs]
            try:
                res = self.guarded(lambda rep=rep, reals=reals: real_fn(rep, reals), step)
            except Skip:
                continue  # this replica does not take part in the step
            if res[0] == "exc" and res[1] == "SubqueryError" and rep == "sqlite" and expect is None:
                self.stats["subquery_error"] += 1
                if "O8" in self.fam:
                    self.stats["o83_evaluated"] += 1
                if "O8" in self.fam and self.in_simple_fragment(step, inputs, new_m):
                    self.violate(
                        "C08",
                        "O8.3",
                        f"`{step['op']}` raised SubqueryError although the pipeline stays inside the simple fragment "
                        f"(element-wise mutate/filter, select, rename, arrange, one grouped summarize, final slice_head): {'/'.join(new_m.verbs)}",
                        op=step["op"],
                        tail="/".join(new_m.verbs[-3:]),
                    )
                res, rec_ok = self.subquery_recover(step, inputs, real_fn, rep, reals, res, subject)
                recovered = recovered or rec_ok
            results[rep] = res
        if not results:
            raise Skip("no replica took part")
        rf = getattr(self, "_recovery_failed", None)
        self._recovery_failed = None
        if rf is not None and expect is None and results.get("polars", ("ok",))[0] == "ok":
            res2 = rf[1]
            self.violate(
                "C08",
                "O8.2",
                f"`{step['op']}` raised SubqueryError; after inserting alias() it raised {res2[1]}: {str(res2[2])[:200]}",
                op=step["op"],
                second=res2[1],
            )
        if before is not None:
            self.check_frame_condition(before, step, results)

        if expect is not None:
            self.judge_rejection(step, inputs, expect, results, subject)
            self.emit(step, "rejected:" + expect.rule)
            return None

        reals_out = {}
        for rep, res in results.items():
            if res[0] == "ok":
                if not isinstance(res[1], _Table):
                    self.violate(self.crash_prop(subject), "crash", f"{step['op']} returned {type(res[1]).__name__}", kind="nontable")
                reals_out[rep] = res[1]
            else:
                self.on_unexpected_exception(step, rep, res, subject)
        if not reals_out:
            self.emit(step, "failed:" + ",".join(f"{r}={results[r][1]}" for r in sorted(results)))
            return None
        pt = PTable(new_id, new_m, reals_out, step.get("s", 0))
        if self.cq_reps:
            self.produce_compile_only(pt, step, inputs, real_fn)
        self.tables[new_id] = pt
        self.stats["tables"] += 1
        self.states.add((new_m.abstract_state(), step["op"]))
        if recovered:
            self.note("subquery_recovered")
            # the SQL replica now goes through a sub-query: its row order is no longer defined
            # (DESIGN.md section 4.2), so the replicas are compared as multisets from here on
            new_m.order_fixed = False
        try:
            d = self.after_produce(pt, step, inputs)
        except Skip:
            # the model could not follow the library here: the table is not used any further
            self.tables.pop(new_id, None)
            raise
        self.emit(step, "ok", d)
        return pt

    def produce_compile_only(self, pt, step, inputs, real_fn):
        """the same verb on the compile-only dialect replicas (C19)"""
        for rep in self.cq_reps:
            if not all(rep in p.cq for p in inputs):
                continue
            reals = [p.cq[rep] for p in inputs]
            try:
                res = self.call(lambda rep=rep, reals=reals: real_fn(rep, reals))
                if res[0] == "exc" and res[1] == "SubqueryError":
                    keep = bool(self.cfg.get("hold_refs", True))
                    res = self.call(lambda rep=rep, reals=reals: real_fn(rep, [t >> pdt.alias(keep_col_refs=keep) for t in reals]))
            except Skip:
                continue
            if res[0] == "ok":
                pt.cq[rep] = res[1]
            else:
                self.stats[f"cq_verb_exc:{rep}:{res[1]}"] += 1
                if "O19" in self.fam and res[1] not in ("SubqueryError", "NotSupportedError") and "polars" in pt.real:
                    self.violate("C19", "O19.x", f"`{step['op']}` accepted on polars raised {res[1]} on the {rep} dialect: {str(res[2])[:160]}", rep=rep, cls=res[1], op=step["op"])

    def guarded(self, fn, step):
        """call fn under the per-step fault regime (interrupt population)"""
        k = step.get("interrupt_at")
        if k is not None:
            res = self.call(lambda: self.interrupter.run(fn, k))
            if self.interrupter.fired_in:
                self.note("fault:interrupt")
                self.note("interrupt_in:%s:%s" % self.interrupter.fired_in)
            return res
        return self.call(fn)

    def subquery_recover(self, step, inputs, real_fn, rep, reals, res, subject):
        """SubqueryError on the SQL replica: insert alias() before the verb (C08 O8.2)."""
        # a plain alias() cuts every reference held from before: it is used only in the C08 profile,
        # which addresses columns by name (C. / t[...] of the table the verb is applied to) and
        # holds no references; elsewhere alias(keep_col_refs=True) keeps the SQL replica alive
        # (a plain alias() cuts every reference held so far: used only while the run holds none)
        plain = "O8" in self.fam and not self.cfg.get("hold_refs", False)

        def go():
            aliased = [t >> pdt.alias() if plain else t >> pdt.alias(keep_col_refs=True) for t in reals]
            return real_fn(rep, aliased)

        res2 = self.call(go)
        self.stats["subquery_recover_attempts"] += 1
        if res2[0] == "ok":
            return res2, True
        if "O8" in self.fam:
            # judged after all replicas ran: only if the Polars replica accepts the same step
            self._recovery_failed = (step, res2)
        return res, False

    SIMPLE_VERBS = {"src", "mutate", "filter", "select", "drop", "rename", "arrange", "group_by", "ungroup", "summarize", "slice_head", "recompute"}

    def in_simple_fragment(self, step, inputs, new_m) -> bool:
        """C08: pipelines of element-wise mutate/filter, select, rename, arrange, ONE grouped summarize
        and a FINAL slice_head never need a subquery"""
        if new_m is None or len(inputs) != 1:
            return False
        verbs = new_m.verbs
        if any(v not in self.SIMPLE_VERBS for v in verbs):
            return False
        if verbs.count("summarize") > 1 or verbs.count("slice_head") > 1:
            return False
        if "slice_head" in verbs[:-1]:
            return False
        if "summarize" in verbs:
            # the one summarize must be grouped
            i = verbs.index("summarize")
            if "group_by" not in verbs[:i] or new_m.ung is not None:
                return False
        self.note("simple_fragment_subquery_check")
        return True

    def crash_prop(self, subject):
        return self.profile.get("crash_subjects", {}).get(subject)

    def on_unexpected_exception(self, step, rep, res, subject):
        cls = res[1]
        self.stats[f"exc:{rep}:{cls}"] += 1
        if rep == "polars" and cls == "SubqueryError" and "O8" in self.fam:
            self.violate("C08", "O8.4", f"`{step['op']}` raised SubqueryError on a Polars-backed table", op=step["op"])
        if rep == "sqlite" and cls in ("SubqueryError", "NotSupportedError"):
            self.stats["sql_refused"] += 1
            return
        if cls == "SimInterrupt":
            self.stats["interrupted_calls"] += 1
            return
        if cls == "OperationalError" and step.get("_fault"):
            return
        prop = self.crash_prop(subject)
        if prop is not None:
            self.violate(
                prop,
                "crash",
                f"valid `{step['op']}` raised {cls} on {rep}: {str(res[2])[:200]}",
                op=step["op"],
                cls=cls,
                rep=rep,
                **self.step_features(step),
            )
        self.incident(step, rep, cls, res[2], "verb")

    def step_features(self, step):
        return {}

    def judge_rejection(self, step, inputs, expect, results, subject):
        fam = "O9" if expect.rule == "out_of_scope" else "O14"
        prop = {"O9": "C09", "O14": "C14"}[fam]
        enabled = fam in self.fam or (fam == "O9" and "O16" in self.fam)
        if fam == "O9" and "O16" in self.fam and "O9" not in self.fam:
            prop = "C16"
        if expect.rule == "join_same_origin" and "O16" in self.fam and "O14" not in self.fam:
            # alias(keep_col_refs=True) / collect() / references kept: not an independent table
            enabled, prop = True, "C16"
            self.note("same_origin_join_rejected")
        self.stats["rejections_expected"] += 1
        self.note("reject:" + expect.rule)
        for rep, res in results.items():
            if res[0] == "ok":
                self.stats["reject_missed"] += 1
                if enabled:
                    self.violate(
                        prop,
                        "O9.3" if fam == "O9" else "O16.3" if prop == "C16" else "O14.1",
                        f"ill-formed `{step['op']}` ({expect.rule}) was accepted on {rep}",
                        rule=expect.rule,
                        op=step["op"],
                        got="accepted",
                        ctx=step.get("ctx"),
                    )
            elif res[1] not in expect.classes and res[1] != "SimInterrupt":
                self.stats["reject_wrong_class"] += 1
                if rep == "sqlite" and res[1] == "SubqueryError":
                    continue
                if enabled:
                    self.violate(
                        prop,
                        "O9.3" if fam == "O9" else "O16.3" if prop == "C16" else "O14.1",
                        f"ill-formed `{step['op']}` ({expect.rule}) raised {res[1]} on {rep}, documented: {'/'.join(expect.classes)}: {str(res[2])[:160]}",
                        rule=expect.rule,
                        op=step["op"],
                        got=res[1],
                        ctx=step.get("ctx"),
                    )
        if len({(r[0], r[1] if r[0] == "exc" else None) for r in results.values()}) > 1:
            self.stats["reject_backend_disagree"] += 1

    # ------------------------------------------------------------------------------
    # sources and makers
    # ------------------------------------------------------------------------------
    def op_src(self, step):
        tid = f"t{step['i']}"
        m = self.model.src(tid, step["T"])
        real = {rep: self.world.src(step["T"], rep) for rep in self.replicas}
        pt = PTable(tid, m, real, step.get("s", 0), cq={rep: self.world.src(step["T"], rep) for rep in self.cq_reps})
        self.tables[tid] = pt
        self.stats["tables"] += 1
        d = self.after_produce(pt, step, [])
        self.emit(step, "ok", d)

    def op_ref(self, step):
        """take a column reference: t.name | t["name"] | t[older_ref]"""
        pt = self.T(step["t"])
        rid = f"r{step['i']}"
        how = step["how"]
        m = pt.m
        expect_ok = True
        if how == "via":
            if step["via"] not in self.refs:
                raise Skip(step["via"])
            tok = self.ref_toks[step["via"]]
            expect_ok = tok in m.vis_toks()
        else:
            tok = m.tok_of_name(step["name"])
            expect_ok = tok is not None
        out = {}
        for rep in self.live_reps(pt) + [r for r in self.cq_reps if r in pt.cq]:
            t = pt.real[rep] if rep in pt.real else pt.cq[rep]
            if how == "attr":
                res = self.call(lambda t=t: getattr(t, step["name"]))
            elif how == "item":
                res = self.call(lambda t=t: t[step["name"]])
            else:
                via = self.refs[step["via"]].get(rep)
                if via is None:
                    continue
                res = self.call(lambda t=t, via=via: t[via])
            if expect_ok:
                if res[0] != "ok":
                    if "O9" in self.fam or "O16" in self.fam:
                        self.violate(
                            "C09" if "O9" in self.fam else "C16",
                            "O9.2",
                            f"taking reference ({how}) of a visible column raised {res[1]} on {rep}",
                            how=how,
                            got=res[1],
                        )
                    continue
                col = res[1]
                want_name = m.name_of_tok(tok)
                if col.name != want_name and ("O9" in self.fam or "O16" in self.fam):
                    self.violate(
                        "C09" if "O9" in self.fam else "C16",
                        "O9.2",
                        f"derived[ref].name = {col.name!r}, model says the column is now called {want_name!r} ({rep})",
                        how=how,
                    )
                out[rep] = col
            else:
                if res[0] == "ok" or res[1] != "ColumnNotFoundError":
                    if "O9" in self.fam or "O16" in self.fam:
                        self.violate(
                            "C09" if "O9" in self.fam else "C16",
                            "O9.2",
                            f"derived[ref] for a non-visible column: {'accepted' if res[0] == 'ok' else res[1]} on {rep}, expected ColumnNotFoundError",
                            how=how,
                            got="accepted" if res[0] == "ok" else res[1],
                        )
        if expect_ok and out:
            self.refs[rid] = out
            self.ref_toks[rid] = tok
            self.ref_step[rid] = step["i"]
            self.stats["refs"] += 1
            self.emit(step, "ok")
        else:
            self.emit(step, "noref")

    def op_expr(self, step):
        """build one expression object that later steps share"""
        rec = step["rec"]
        self.check_recipe_refs(rec)
        eid = f"e{step['i']}"
        out = {}
        for rep in self.replicas:
            try:
                rx = self.rctx(rep, None)
                res = self.call(lambda rx=rx: X.real_expr(rec, rx))
            except KeyError:
                continue
            if res[0] == "ok":
                out[rep] = res[1]
            elif res[1] == "KeyError":
                continue  # a reference does not exist on this replica
            else:
                self.stats["incidental_crash"] += 1
        if out:
            self.exprs[eid] = out
            self.expr_recs[eid] = rec
            self.stats["exprs"] += 1
        self.emit(step, "ok" if out else "noexpr")

    # ------------------------------------------------------------------------------
    # single-table verbs: model part and real part are separate so that a Pipeable can
    # reuse them (op_pipe / op_apply_pipe)
    # ------------------------------------------------------------------------------
    def verb_model(self, vs: dict, m, new_id: str):
        """apply the verb described by `vs` to model table m -> MTable (may raise Expect/OutOfScope)"""
        op = vs["op"]
        cx = self.mctx(m)
        M = self.model
        if op in ("select", "drop"):
            toks = [cx.resolve(strip_refarg(a)) for a in vs["cols"]]
            vis = m.vis_toks()
            for t in toks:
                if t not in vis:
                    raise Expect(("ColumnNotFoundError",), "select_hidden")
            if op == "drop":
                dropped = set(toks)
                if not [t for t in vis if t not in dropped]:
                    # a table without visible columns is outside the domain (DESIGN.md 12.3: SQL
                    # cannot express a SELECT without columns)
                    raise Skip("drop would leave no visible column")
                return M.select(m, new_id, [t for t in vis if t not in dropped])
            if len(set(toks)) != len(toks):
                raise Expect(("ValueError",), "select_duplicate")
            if not toks:
                raise Expect(("ValueError",), "select_empty")
            return M.select(m, new_id, toks)
        if op == "rename":
            mapping = {}
            for a, new in vs["map"]:
                t = cx.resolve(strip_refarg(a))
                if t not in m.vis_toks():
                    raise Expect(("ColumnNotFoundError", "ValueError"), "rename_hidden")
                mapping[t] = new
            final = [mapping.get(t, n) for n, t in m.visible]
            if len(set(final)) != len(final):
                raise Expect(("ValueError",), "rename_duplicate")
            return M.rename(m, new_id, mapping)
        if op == "mutate":
            items = []
            window = False
            for j, (name, rec) in enumerate(vs["cols"]):
                tok = X.expr_tok(rec, cx, f"{new_id}.{j}")
                window = window or X.expr_ftype(rec, self.expr_recs) != "ew"
                if tok.kind == "const" and tok.lineage is None and m.rowid and not (m.n_join or m.n_union or m.n_summarize):
                    # a literal column of a single-source table belongs to that table's rows: when the
                    # table ends up on the padded side of a left / full join it is null together with
                    # the table's other columns (also when it is hidden and reached through a reference)
                    lins = {self.model.toks[t].lineage for t in m.rowid}
                    if len(lins) == 1 and None not in lins:
                        tok = tok.derive(tok.id, lineage=next(iter(lins)))
                items.append((name, tok))
            res = M.mutate(m, new_id, items, window=window)
            if m.ung is not None:
                dep = set(m.ung)
                for (name, tok), (_, rec) in zip(items, vs["cols"], strict=True):
                    srcs = []
                    for a in X.refargs_of(rec, self.expr_recs):
                        try:
                            srcs.append(cx.resolve(strip_refarg(a)))
                        except (X.OutOfScope, KeyError):
                            pass
                    if any(t in dep for t in srcs):
                        dep.add(tok.id)
                res.ung = frozenset(dep)
            return res
        if op == "filter":
            for p in vs["preds"]:
                X.pred_check(p, cx)
            return M.filter(m, new_id)
        if op == "arrange":
            toks = [cx.resolve(strip_refarg(o["a"])) for o in vs["by"]]
            total = m.rowid is not None and all(t in toks for t in m.rowid)
            return M.arrange(m, new_id, total)
        if op == "slice_head":
            if m.grouping:
                raise Expect(("ValueError",), "slice_grouped")
            return M.slice_head(m, new_id)
        if op == "group_by":
            toks = [cx.resolve(strip_refarg(a)) for a in vs["cols"]]
            for t in toks:
                if t not in m.vis_toks():
                    raise Expect(("ValueError",), "group_by_hidden")
            return M.group_by(m, new_id, toks, vs.get("add", False))
        if op == "ungroup":
            return M.ungroup(m, new_id)
        if op == "summarize":
            if any(m.name_of_tok(t) is None for t in m.grouping):
                # grouped by a hidden column: outside the defined domain (DESIGN.md 12.3; the
                # library raises KeyError here) - the names of the result are not specified
                raise Skip("summarize of a table grouped by a hidden column")
            items = []
            for j, (name, rec) in enumerate(vs["cols"]):
                tok = X.expr_tok(rec, cx, f"{new_id}.{j}", in_summarize=True)
                if tok.lineage is not None and tok.kind != "const":
                    # a plain grouping column: keeps alignment only as a group key; be conservative
                    tok = tok.derive(tok.id, lineage=None, nullable=True)
                items.append((name, tok))
            if not items and not m.grouping:
                raise Expect(("ValueError",), "summarize_empty")
            return M.summarize(m, new_id, items)
        if op == "alias":
            return M.alias(m, new_id, vs.get("name"), vs.get("keep", False))
        raise AssertionError(op)

    def verb_real(self, vs: dict, rx):
        """-> Pipeable for the verb described by vs (arguments built in context rx)"""
        op = vs["op"]

        def ra(a):
            if "n" in a:
                return a["n"]
            return X.real_ref(a, rx)

        if op == "select":
            return pdt.select(*[ra(a) for a in vs["cols"]])
        if op == "drop":
            return pdt.drop(*[ra(a) for a in vs["cols"]])
        if op == "rename":
            return pdt.rename({ra(a): new for a, new in vs["map"]})
        if op == "mutate":
            return pdt.mutate(**{name: X.real_expr(rec, rx) for name, rec in vs["cols"]})
        if op == "filter":
            return pdt.filter(*[X.real_pred(p, rx) for p in vs["preds"]])
        if op == "arrange":
            keys = []
            for o in vs["by"]:
                if "n" in o["a"]:
                    keys.append(o["a"]["n"])
                else:
                    keys.append(X.real_order(o, rx))
            return pdt.arrange(*keys)
        if op == "slice_head":
            return pdt.slice_head(vs["n"], offset=vs.get("offset", 0))
        if op == "group_by":
            return pdt.group_by(*[ra(a) for a in vs["cols"]], add=vs.get("add", False))
        if op == "ungroup":
            return pdt.ungroup()
        if op == "summarize":
            return pdt.summarize(**{name: X.real_expr(rec, rx) for name, rec in vs["cols"]})
        if op == "alias":
            if vs.get("name") is not None:
                return pdt.alias(vs["name"], keep_col_refs=vs.get("keep", False))
            return pdt.alias(keep_col_refs=vs.get("keep", False))
        raise AssertionError(op)

    def _single(self, step):
        pt = self.T(step["t"])
        self.check_recipe_refs(step)
        if step["op"] == "group_by":
            step["_oos_classes"] = ("ColumnNotFoundError",)

        def model_fn(new_id):
            return self.verb_model(step, pt.m, new_id)

        def real_fn(rep, reals):
            t = reals[0]
            return t >> self.verb_real(step, self.rctx(rep, t))

        return self.produce(step, [pt], model_fn, real_fn, subject=step["op"])

    op_select = op_drop = op_rename = op_mutate = op_filter = op_arrange = _single
    op_slice_head = op_group_by = op_ungroup = op_summarize = op_alias = _single

    # ------------------------------------------------------------------------------
    # pipes
    # ------------------------------------------------------------------------------
    def op_pipe(self, step):
        """build a reusable Pipeable from verbs whose arguments use C. columns / pooled objects"""
        for vs in step["verbs"]:
            self.check_recipe_refs(vs)
        pid = f"p{step['i']}"
        out = {}
        for rep in self.replicas:
            rx = self.rctx(rep, None)

            def build(rx=rx):
                p = None
                for vs in step["verbs"]:
                    q = self.verb_real(vs, rx)
                    p = q if p is None else (p >> q)
                return p

            res = self.call(build)
            if res[0] == "ok":
                out[rep] = res[1]
        if out:
            self.pipes[pid] = dict(real=out, verbs=step["verbs"])
            self.stats["pipes"] += 1
        self.emit(step, "ok" if out else "nopipe")

    def op_apply_pipe(self, step):
        pt = self.T(step["t"])
        p = self.pipes.get(step["p"])
        if p is None:
            raise Skip(step["p"])
        step["_uses_pool"] = True

        def model_fn(new_id):
            m = pt.m
            n = len(p["verbs"])
            for j, vs in enumerate(p["verbs"]):
                m = self.verb_model(vs, m, new_id if j == n - 1 else f"{new_id}_{j}")
            return m

        def real_fn(rep, reals):
            if rep not in p["real"]:
                raise Skip("pipe not on replica")
            return reals[0] >> p["real"][rep]

        self.note("pipe_applied")
        return self.produce(step, [pt], model_fn, real_fn, subject="apply_pipe")

    # ------------------------------------------------------------------------------
    # two-table verbs
    # ------------------------------------------------------------------------------
    def op_join(self, step):
        l = self.T(step["l"])
        r = self.T(step["r"])
        self.check_recipe_refs(step)
        how = step["how"]
        on = step["on"]
        if join_too_big(l, r):
            raise Skip("join result could exceed the row cap")

        def model_fn(new_id):
            lm, rm = l.m, r.m
            if lm.grouping or rm.grouping:
                raise Expect(("ValueError",), "join_grouped")
            if (lm.origins & rm.origins) or (set(lm.scope) & set(rm.scope)):
                raise Expect(("ValueError",), "join_same_origin")
            cx = self.mctx(lm, right=rm)
            try:
                for p in on:
                    if isinstance(p, str):
                        if lm.tok_of_name(p) is None or rm.tok_of_name(p) is None:
                            raise X.OutOfScope(p)
                    else:
                        X.pred_check(p, cx)
            except X.OutOfScope:
                raise Expect(("ValueError", "ColumnNotFoundError"), "out_of_scope") from None
            sfx = step.get("suffix")
            if sfx:
                lnames = set(lm.names())
                if any(n + sfx in lnames for n in rm.names()):
                    raise Expect(("ValueError",), "join_suffix_collision")
            # names are constrained by O6.1, not predicted: take placeholders now
            return self.model.join(lm, rm, new_id, [None] * len(rm.visible), how)

        def real_fn(rep, reals):
            lt, rt = reals
            rx = self.rctx(rep, lt, right=rt)
            ons = [p if isinstance(p, str) else X.real_pred(p, rx) for p in on]
            kw = {}
            if step.get("suffix"):
                kw["suffix"] = step["suffix"]
            if step.get("cross"):
                return lt >> pdt.cross_join(rt, **kw)
            given = list(ons)
            try:
                return lt >> pdt.join(rt, ons, how, **kw)
            finally:
                # the caller's `on` list is an object that existed before the call (C10): it may be
                # a shared key list used for several joins
                if "O10" in self.fam and (len(ons) != len(given) or any(a is not b for a, b in zip(ons, given, strict=False))):
                    self.violate("C10", "O10.1", f"`join` changed the list that was passed as `on`: {[type(x).__name__ for x in given]} -> {[type(x).__name__ for x in ons]}", op="join", kind="argument_container")

        return self.produce(step, [l, r], model_fn, real_fn, subject="join")

    def op_union(self, step):
        l = self.T(step["l"])
        r = self.T(step["r"])

        def model_fn(new_id):
            lm, rm = l.m, r.m
            if lm.grouping or rm.grouping:
                raise Expect(("ValueError",), "union_grouped")
            if set(lm.names()) != set(rm.names()):
                raise Expect(("ValueError",), "union_columns")
            return self.model.union(lm, rm, new_id)

        def real_fn(rep, reals):
            return reals[0] >> pdt.union(reals[1], distinct=step.get("distinct", False))

        return self.produce(step, [l, r], model_fn, real_fn, subject="union")

    # ------------------------------------------------------------------------------
    # re-rooting
    # ------------------------------------------------------------------------------
    def op_collect(self, step):
        pt = self.T(step["t"])
        keep = step.get("keep", True)
        if "polars" not in pt.real:
            raise Skip("collect is polars only")

        def model_fn(new_id):
            return self.model.collect(pt.m, new_id, keep)

        def real_fn(rep, reals):
            if rep != "polars":
                raise Skip("collect is polars only")
            return reals[0] >> pdt.collect(keep_col_refs=keep)

        save = self.replicas
        try:
            # the SQL replica does not take part (documented: polars-backed tables only)
            self.replicas = [r for r in self.replicas if r == "polars"]
            return self.produce(step, [pt], model_fn, real_fn, subject="collect")
        finally:
            self.replicas = save

    def op_clone(self, step):
        pt = self.T(step["t"])

        def model_fn(new_id):
            return self.model.clone_reroot(pt.m, new_id)

        def real_fn(rep, reals):
            return _Table(reals[0]._ast.clone())

        return self.produce(step, [pt], model_fn, real_fn, subject="clone")

    def op_recompute(self, step):
        """buggify: skip the fast path - continue from Table(t._ast) instead of the incrementally updated table"""
        pt = self.T(step["t"])

        def model_fn(new_id):
            return pt.m.child(new_id, "recompute")

        def real_fn(rep, reals):
            return _Table(reals[0]._ast)

        return self.produce(step, [pt], model_fn, real_fn, subject="recompute")

    def op_transfer(self, step):
        new = self.T(step["new"])
        src = self.T(step["src"])

        def model_fn(new_id):
            if any(src.m.tok_of_name(n) is None for n in new.m.names()):
                raise Expect(("ValueError",), "transfer_missing")
            T = self.model.toks
            for n in new.m.names():
                ka, kb = T[new.m.tok_of_name(n)].kind, T[src.m.tok_of_name(n)].kind
                if (ka == "str") != (kb == "str"):
                    # the data table is meant to be a materialisation of the reference source: a
                    # column of another type under the same name is outside the documented use
                    raise Skip("transfer onto a table whose same-named column has another type")
            if any(new.m.name_of_tok(t) is None for t in new.m.grouping):
                # grouped by a hidden column: outside the defined domain (DESIGN.md 12.3) - the
                # reference source cannot name that column, so the grouping of the result is not specified
                raise Skip("transfer of a table grouped by a hidden column")
            return self.model.transfer(new.m, src.m, new_id)

        def real_fn(rep, reals):
            return pdt.transfer_col_references(reals[0], reals[1])

        return self.produce(step, [new, src], model_fn, real_fn, subject="transfer")

    # ------------------------------------------------------------------------------
    # faults that are steps of their own
    # ------------------------------------------------------------------------------
    def op_uuid_regime(self, step):
        self.clock.switch(step["regime"])
        self.note("fault:uuid_regime")
        self.emit(step, "ok")

    def op_gc(self, step):
        gc.collect()
        self.note("fault:gc")
        self.emit(step, "ok")

    def op_arm_engine(self, step):
        """the k-th statement / the next connect of the SQLite engine will fail"""
        if self.world.faults is None:
            raise Skip("no sql")
        # the fault lands inside the next observer step on the SQLite replica (in-flight work),
        # never while the simulator itself talks to the database
        self.pending_fault = (step["kind"], step.get("k", 1))
        self.emit(step, "armed")
