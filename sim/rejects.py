"""C14: catalogue of rule-violating constructions, injected as *faults* into healthy histories.

A reject step names a rule and a nesting position; the construction is a small function of the
current table.  The admissible exception class per rule is the one the raise site and
errors/__init__.py document; where the property statement names a type it wins.
"""

import sim.bootstrap  # noqa: F401
import pydiverse.transform as pdt
from sim import exprs as X
from sim.machine import Expect, Skip

# rule -> (admissible classes, verbs it can be placed in)
RULES = {
    # type errors in expressions
    "type_add_str": (("DataTypeError",), ("mutate", "filter", "arrange", "summarize", "join_on")),
    "type_sum_str": (("DataTypeError",), ("mutate", "summarize")),
    "type_bad_cast": (("DataTypeError",), ("mutate", "filter", "summarize")),
    # Bool + Int has no overload (only Bool + Bool); the boolean operand is built in place
    "type_bool_add": (("DataTypeError",), ("mutate", "filter", "summarize")),
    # an ill-typed expression as the ROOT of a context argument (arrange= / partition_by= / filter=)
    "type_in_ctx": (("DataTypeError",), ("mutate",)),
    # non-boolean predicate
    "pred_nonbool": (("DataTypeError",), ("filter", "join_on")),
    # function type rules
    "window_in_filter": (("FunctionTypeError",), ("filter",)),
    "agg_in_filter": (("FunctionTypeError",), ("filter",)),
    "window_in_summarize": (("FunctionTypeError",), ("summarize",)),
    "window_in_on": (("FunctionTypeError",), ("join_on",)),
    "nested_agg": (("FunctionTypeError",), ("mutate", "summarize")),
    "nested_window": (("FunctionTypeError",), ("mutate",)),
    "summarize_plain_col": (("FunctionTypeError",), ("summarize",)),
    # unknown columns
    "unknown_C": (("ColumnNotFoundError",), ("mutate", "filter", "arrange", "select", "group_by", "summarize", "rename", "drop")),
    "unknown_str": (("ColumnNotFoundError",), ("select", "drop", "group_by", "arrange")),
    "unknown_str_rename": (("ColumnNotFoundError", "ValueError"), ("rename",)),
    "foreign_ref": (("ColumnNotFoundError",), ("mutate", "filter", "arrange", "select", "summarize", "drop")),
    "foreign_ref_on": (("ValueError", "ColumnNotFoundError"), ("join_on",)),
    "unknown_on_name": (("ValueError", "ColumnNotFoundError"), ("join_on",)),
    "reselect_hidden": (("ColumnNotFoundError",), ("select",)),
    # duplicate names
    "rename_duplicate": (("ValueError",), ("rename",)),
    "rename_two_onto_one": (("ValueError",), ("rename",)),
    "join_suffix_collision": (("ValueError",), ("join",)),
    "select_duplicate": (("ValueError",), ("select",)),
    # table-level rules
    "join_grouped": (("ValueError",), ("join",)),
    "join_same_origin": (("ValueError",), ("join",)),
    "join_cross_backend": (("TypeError", "ValueError"), ("join",)),
    "union_grouped": (("ValueError",), ("union",)),
    "union_cross_backend": (("TypeError", "ValueError"), ("union",)),
    "union_columns": (("ValueError",), ("union",)),
    "slice_grouped": (("ValueError",), ("slice_head",)),
    "summarize_empty": (("ValueError",), ("summarize",)),
    "full_join_ineq": (("ValueError",), ("join",)),
    # markers
    "marker_in_mutate": (("TypeError",), ("mutate", "filter", "summarize")),
    # a marker nested inside an `arrange` argument is left grey by the documentation: not generated
    "marker_nested": (("TypeError",), ("mutate",)),
    "rename_hidden_ref": (("ColumnNotFoundError", "ValueError"), ("rename",)),
    # an aggregate below an explicit partition_by= does not aggregate the summarize's groups
    "summarize_agg_partition_by": (("FunctionTypeError",), ("summarize",)),
    # a SHARED aggregate expression object inside `on` (the object is used again by later steps)
    "agg_in_on_pooled": (("FunctionTypeError",), ("join_on",)),
}

NESTS = ("top", "arith", "case_branch", "case_cond", "ctx_kwarg")
# where the inner function of a nested aggregate / window sits, or which context argument
# carries the ill-typed expression
POSITIONS = ("arith", "case_cond", "case_branch", "ctx_filter", "ctx_arrange", "ctx_partition")


def gen_reject(g, *, force_pt=None, force_rules=None):
    """-> reject step (generator side: chooses rule, verb position, nesting; all by name).
    A rule is chosen among those whose precondition holds for some table (pair) of the pool."""
    m = g.m
    rng = g.rng
    rules = list(RULES)
    only = force_rules or g.p.get("reject_rules")
    if only:
        rules = [r for r in rules if r in only]
    T = m.model.toks
    for _ in range(8):
        pt = force_pt or g.pick_table(lambda p: len(p.m.visible) >= 2)
        if pt is None:
            return None
        rule = rng.choice(rules)
        if rule == "agg_in_on_pooled":
            # choose the shared aggregate first, then a table in which it is in scope; afterwards
            # the same expression object is used again (a rejected call must not have changed it)
            from sim import exprs as X

            cands = [e for e, rec in m.expr_recs.items() if rec.get("e") == "agg" and all("r" in a for a in X.refargs_of(rec, m.expr_recs))]
            rng.shuffle(cands)
            found = None
            for e in cands:
                toks = [m.ref_toks.get(a["r"]) for a in X.refargs_of(m.expr_recs[e], m.expr_recs)]
                tabs = [p for p in (m.tables[t] for t in g.tables()) if all(t in p.m.scope for t in toks) and len(p.m.visible) >= 2 and not p.m.grouping]
                if tabs:
                    found = (e, rng.choice(tabs))
                    break
            if found is None:
                continue
            pt = found[1]
            eid = found[0]

            def followup(i, eid=eid, tid=pt.id):
                p2 = m.tables.get(tid)
                if p2 is None or eid not in m.exprs:
                    return None
                m.note("shared_aggregate_reused_after_rejected_join")
                gb = [n for n, t in p2.m.visible if T[t].mod]
                if gb and rng.random() < 0.6:
                    def grouped_mutate(j, gtid=f"t{i}"):
                        if gtid not in m.tables:
                            return None
                        return {"op": "mutate", "t": gtid, "cols": [[g.fresh_name(), {"e": "pool", "x": eid}]]}

                    g.plan.insert(0, grouped_mutate)
                    return {"op": "group_by", "t": tid, "cols": [{"c": rng.choice(gb)}], "add": False}
                return {"op": "mutate", "t": tid, "cols": [[g.fresh_name(), {"e": "pool", "x": eid}]]}

            g.plan.append(followup)
        classes, verbs = RULES[rule]
        verb = rng.choice(verbs)
        st = {"op": "reject", "t": pt.id, "rule": rule, "verb": verb, "nest": rng.choice(NESTS), "via": rng.choice(["C", "own", "ref"])}
        vis = pt.m.visible
        ints = [n for n, t in vis if T[t].kind == "int"]
        strs = [n for n, t in vis if T[t].kind == "str"]
        st["int"] = rng.choice(ints) if ints else None
        st["int2"] = rng.choice(ints) if ints else None
        st["str"] = rng.choice(strs) if strs else None
        st["any"] = rng.choice([n for n, _ in vis])
        st["new"] = g.fresh_name()
        if rule in ("nested_agg", "nested_window"):
            st["pos"] = rng.choice(("top",) + POSITIONS)
        if rule == "type_in_ctx":
            st["pos"] = rng.choice(POSITIONS[3:])
            st["k"] = rng.choice(["add_str", "bad_cast", "nonbool_when"])
            st["deep"] = rng.random() < 0.4
        if rule in ("foreign_ref", "foreign_ref_on", "reselect_hidden", "rename_hidden_ref"):
            if rule in ("reselect_hidden", "rename_hidden_ref"):
                hid = set(pt.m.hidden())
                cands = [r for r, t in m.ref_toks.items() if t in hid]
            else:
                # int columns only: the surrounding expression stays well typed, so that the
                # scope error is the only error of the construction
                cands = [r for r, t in m.ref_toks.items() if t not in pt.m.scope and T[t].kind == "int"]
            if not cands:
                continue
            st["ref"] = rng.choice(cands)
        if rule == "agg_in_on_pooled":
            st["x"] = eid
        if verb in ("join", "join_on", "union"):
            def overlap(p):
                return bool((p.m.origins & pt.m.origins) or (set(p.m.scope) & set(pt.m.scope)))

            if rule == "join_same_origin":
                pred = lambda p: p.id != pt.id and overlap(p) and not p.m.grouping  # noqa: E731
            elif rule in ("join_grouped", "union_grouped"):
                pred = lambda p: p.id != pt.id and (bool(p.m.grouping) or bool(pt.m.grouping))  # noqa: E731
            elif rule == "union_columns":
                pred = lambda p: p.id != pt.id and set(p.m.names()) != set(pt.m.names()) and not p.m.grouping  # noqa: E731
            elif rule in ("join_cross_backend", "union_cross_backend"):
                pred = lambda p: p.id != pt.id and "sqlite" in p.real and "polars" in pt.real and not p.m.grouping  # noqa: E731
            else:
                pred = lambda p: p.id != pt.id and not overlap(p) and not p.m.grouping and bool(set(p.real) & set(pt.real))  # noqa: E731
            other = g.pick_table(pred)
            if other is None:
                continue
            st["other"] = other.id
        else:
            other = None
        if m.reject_precondition(st, pt, other) is None:
            return st
    return None


class RejectsMixin:
    def op_reject(self, step):
        pt = self.T(step["t"])
        rule = step["rule"]
        verb = step["verb"]
        classes, _ = RULES[rule]
        m = pt.m
        other = self.tables.get(step.get("other")) if step.get("other") else None
        if step.get("other") and other is None:
            raise Skip(step["other"])
        if step.get("ref") and step["ref"] not in self.refs:
            raise Skip(step["ref"])
        # the named columns must still be there (minimisation may have removed steps)
        for key in ("int", "int2", "str", "any"):
            if step.get(key) is not None and m.tok_of_name(step[key]) is None:
                raise Skip(step[key])
        pre = self.reject_precondition(step, pt, other)
        if pre is not None:
            raise Skip(pre)
        step["ctx"] = f"{verb}/{step.get('pos') or step['nest']}"

        def model_fn(new_id):
            raise Expect(classes, rule)

        def real_fn(rep, reals):
            t = reals[0]
            o = reals[1] if len(reals) > 1 else None
            return self.build_reject(step, rep, t, o)

        inputs = [pt] + ([other] if other is not None else [])
        before_digest = dict(pt.first_digest)
        self.produce(step, inputs, model_fn, real_fn, subject="reject")
        # the input table is still usable and unchanged (O14.3)
        if "O14" in self.fam:
            for rep in sorted(pt.real):
                res = self.observe(pt, rep, [])
                if res[0] != "ok":
                    if rep == "sqlite" and res[1] in ("NotSupportedError",):
                        continue
                    self.violate("C14", "O14.3", f"after a rejected `{verb}` ({rule}) the input table does not export any more on {rep}: {res[1]}", rule=rule)
                from sim.machine import canon_rows, sha

                d = sha((res[1], canon_rows(res[2], m.order_fixed)))
                if rep in before_digest and before_digest[rep] != d:
                    self.violate("C14", "O14.3", f"a rejected `{verb}` ({rule}) changed what its input table exports on {rep}", rule=rule)

    # ------------------------------------------------------------------------------
    def reject_precondition(self, step, pt, other):
        rule = step["rule"]
        m = pt.m
        T = self.model.toks
        needs_int = rule in (
            "type_add_str", "type_bad_cast", "pred_nonbool", "window_in_filter", "agg_in_filter", "window_in_summarize",
            "window_in_on", "nested_agg", "nested_window", "summarize_plain_col", "marker_in_mutate", "marker_nested", "full_join_ineq", "type_in_ctx", "type_bool_add",
        )  # fmt: skip
        if (needs_int or rule in ("foreign_ref", "unknown_C")) and step.get("int") is None:
            return "no int column"
        if rule == "type_sum_str" and step.get("str") is None:
            return "no str column"
        if rule == "summarize_agg_partition_by":
            if step.get("int") is None or step.get("int2") is None or step["int"] == step["int2"]:
                return "need two int columns"
            if m.tok_of_name(step["int"]) in m.grouping:
                return "is grouping col"
        if rule == "agg_in_on_pooled":
            from sim import exprs as X

            if step.get("x") not in self.exprs or other is None or step.get("int") is None:
                return "no pooled aggregate"
            toks = [self.ref_toks.get(a["r"]) for a in X.refargs_of(self.expr_recs[step["x"]], self.expr_recs)]
            if not all(t is not None and (t in m.scope or t in other.m.scope) for t in toks):
                return "pooled aggregate not in scope of the join inputs"
        if rule == "summarize_plain_col":
            tok = m.tok_of_name(step["int"])
            if tok in m.grouping:
                return "is grouping col"
        if rule == "slice_grouped" and not m.grouping:
            return "not grouped"
        if rule == "summarize_empty" and m.grouping:
            return "grouped"
        if rule in ("rename_duplicate", "rename_two_onto_one") and len(m.visible) < 2:
            return "too few columns"
        if rule in ("join_grouped", "union_grouped"):
            if not (m.grouping or (other is not None and other.m.grouping)):
                return "none grouped"
        if rule == "join_same_origin":
            if other is None or not ((m.origins & other.m.origins) or (set(m.scope) & set(other.m.scope))):
                return "disjoint origins"
            if m.grouping or other.m.grouping:
                return "grouped"
        if rule in ("join_cross_backend", "union_cross_backend"):
            if len(self.replicas) < 2 or "polars" not in pt.real or other is None or "sqlite" not in other.real:
                return "need both back ends"
            if m.grouping or other.m.grouping:
                return "grouped"
        if rule == "union_columns":
            if other is None or set(other.m.names()) == set(m.names()) or m.grouping or other.m.grouping:
                return "same columns"
        if rule in ("join_suffix_collision", "full_join_ineq", "window_in_on", "foreign_ref_on", "unknown_on_name", "agg_in_on_pooled") or (
            step["verb"] == "join_on"
        ):
            if other is None or m.grouping or other.m.grouping:
                return "need ungrouped pair"
            if (m.origins & other.m.origins) or (set(m.scope) & set(other.m.scope)):
                return "same origin"
        if rule == "join_suffix_collision":
            # needs a right name n and a left name n + suffix: provided by construction below
            if not other.m.visible:
                return "empty right"
        if rule == "rename_hidden_ref" or rule == "reselect_hidden":
            tok = self.ref_toks[step["ref"]]
            if tok not in m.hidden():
                return "not hidden any more"
        if rule in ("foreign_ref", "foreign_ref_on"):
            tok = self.ref_toks[step["ref"]]
            if tok in m.scope or (other is not None and tok in other.m.scope):
                return "in scope"
        return None

    # ------------------------------------------------------------------------------
    def col(self, step, t, name, rep):
        """address column `name` of real table t in the way the step prescribes"""
        via = step["via"]
        if via == "C" and step["verb"] != "join_on":  # C.name is ambiguous inside `on`
            return getattr(pdt.C, name)
        return t[name]

    def nest(self, step, t, rep, bad, good_int):
        """place the offending expression `bad` at the nesting position"""
        n = step["nest"]
        if n == "top" or good_int is None:
            return bad
        if n == "arith":
            return bad + 1 if step["rule"] not in ("pred_nonbool",) else bad
        if n == "case_branch":
            return pdt.when(good_int >= 0).then(bad).otherwise(good_int)
        if n == "case_cond":
            # the offending construct sits in the CONDITION of the case expression
            if step["rule"] in ("window_in_filter", "agg_in_filter", "window_in_summarize", "window_in_on", "unknown_C", "foreign_ref"):
                return pdt.when(bad > 0).then(good_int).otherwise(0)
            return pdt.when(good_int >= 0).then(bad).otherwise(bad)
        if n == "ctx_kwarg":
            return bad
        return bad

    def build_reject(self, step, rep, t, o):
        rule, verb = step["rule"], step["verb"]
        if step.get("ref") and rep not in self.refs[step["ref"]]:
            raise Skip("reference not on this replica")
        new = step["new"]
        c_int = self.col(step, t, step["int"], rep) if step.get("int") else None
        c_int2 = self.col(step, t, step["int2"], rep) if step.get("int2") else None
        c_str = self.col(step, t, step["str"], rep) if step.get("str") else None
        c_any = self.col(step, t, step["any"], rep)
        own_int = t[step["int"]] if step.get("int") else None

        def place(expr, *, boolean=False):
            """put expression `expr` into verb `verb`"""
            if verb == "mutate":
                return t >> pdt.mutate(**{new: expr})
            if verb == "filter":
                return t >> pdt.filter(expr if boolean else (expr > 0))
            if verb == "arrange":
                return t >> pdt.arrange(expr)
            if verb == "summarize":
                return t >> pdt.summarize(**{new: expr})
            if verb == "select":
                return t >> pdt.select(expr)
            if verb == "drop":
                return t >> pdt.drop(expr)
            if verb == "group_by":
                return t >> pdt.group_by(expr)
            if verb == "rename":
                return t >> pdt.rename({expr: new})
            if verb == "join_on":
                return t >> pdt.join(o, expr if boolean else (expr == o[o_name()]), "inner")
            raise AssertionError(verb)

        def o_name():
            names = o >> pdt.columns()
            om = self.tables[step["other"]].m
            for n in names:
                tok = om.tok_of_name(n)
                if tok is not None and self.model.toks[tok].kind == "int":
                    return n
            raise Skip("right table has no int column")

        nested = lambda bad: self.nest(step, t, rep, bad, own_int)  # noqa: E731

        if rule == "type_add_str":
            return place(nested(c_int + "a"))
        if rule == "type_sum_str":
            bad = c_str.sum()
            return place(bad)
        if rule == "type_bad_cast":
            return place(nested(c_int.cast(pdt.Date())))
        if rule == "type_bool_add":
            bad = (c_int > 0) + 1
            return place(nested(bad) if verb != "summarize" else nested(bad).max())
        if rule == "pred_nonbool":
            bad = c_int + c_int2 if step["nest"] != "top" else c_int
            if verb == "filter":
                return t >> pdt.filter(bad)
            return t >> pdt.join(o, bad, "inner")
        if rule == "window_in_filter":
            bad = c_int.shift(1, arrange=own_int)
            if step["nest"] == "ctx_kwarg":  # condition of a case expression with constant branches
                return t >> pdt.filter(pdt.when(bad > 0).then(True).otherwise(False))
            return t >> pdt.filter(nested(bad) > 0)
        if rule == "agg_in_filter":
            if step["nest"] == "ctx_kwarg":
                return t >> pdt.filter(pdt.when(c_int.max() > 0).then(own_int > 0).otherwise(False))
            return t >> pdt.filter(nested(c_int.max()) > 0)
        if rule == "window_in_summarize":
            return t >> pdt.summarize(**{new: nested(c_int.shift(1, arrange=own_int))})
        if rule == "window_in_on":
            bad = c_int.shift(1, arrange=own_int)
            return t >> pdt.join(o, nested(bad) == o[o_name()], "inner")
        if rule in ("nested_agg", "nested_window"):
            pos = step.get("pos") or ("top" if step["nest"] == "top" else "arith")
            if rule == "nested_agg":
                inner = lambda: c_int.max()  # noqa: E731
                outer = lambda e: e.sum()  # noqa: E731
            else:
                inner = lambda: c_int.shift(1, arrange=own_int)  # noqa: E731
                outer = lambda e: e.cum_sum(arrange=own_int)  # noqa: E731
            if pos == "top":
                return place(outer(inner()))
            if pos == "arith":
                return place(outer(inner() + 1))
            if pos == "case_cond":
                return place(outer(pdt.when(inner() > 0).then(own_int).otherwise(0)))
            if pos == "case_branch":
                return place(outer(pdt.when(own_int >= 0).then(inner()).otherwise(0)))
            if pos == "ctx_filter":
                return place(own_int.sum(filter=inner() > 0))
            if pos == "ctx_arrange":
                return place(own_int.shift(1, arrange=inner()))
            if pos == "ctx_partition":
                return place(own_int.sum(partition_by=inner()))
            raise AssertionError(pos)
        if rule == "type_in_ctx":
            k = step["k"]
            bad = c_int + "a" if k == "add_str" else c_int.cast(pdt.Date()) if k == "bad_cast" else pdt.when(c_int).then(1).otherwise(2)
            if step.get("deep") and k != "bad_cast":
                bad = -bad
            pos = step["pos"]
            if pos == "ctx_filter":
                return place(own_int.sum(filter=bad > 0))
            if pos == "ctx_arrange":
                return place(own_int.shift(1, arrange=bad))
            return place(own_int.sum(partition_by=bad))
        if rule == "summarize_plain_col":
            if step["nest"] == "case_cond":
                # a literal column is a plain column, too (same value in every row, yet not aggregated)
                return t >> pdt.mutate(k__=5) >> pdt.summarize(**{new: pdt.C.k__})
            return t >> pdt.summarize(**{new: nested(c_int)})
        if rule == "summarize_agg_partition_by":
            bad = c_int.sum(partition_by=c_int2)
            return t >> pdt.summarize(**{new: bad if step["nest"] in ("top", "ctx_kwarg") else nested(bad)})
        if rule == "agg_in_on_pooled":
            e = self.exprs[step["x"]].get(rep)
            if e is None:
                raise Skip("expression not on this replica")
            step["_uses_pool"] = True
            return t >> pdt.join(o, own_int == e, "inner")
        if rule == "unknown_C":
            bad = pdt.C.nope__
            if verb in ("mutate", "filter", "summarize"):
                return place(nested(bad) if verb != "summarize" else nested(bad).max())
            return place(bad)
        if rule == "unknown_str":
            if verb == "arrange":
                return t >> pdt.arrange("nope__")
            return place("nope__")
        if rule == "unknown_str_rename":
            return t >> pdt.rename({"nope__": new})
        if rule == "foreign_ref":
            bad = self.refs[step["ref"]][rep]
            if verb in ("mutate", "filter"):
                return place(nested(bad) if step["nest"] != "ctx_kwarg" else own_int.sum(partition_by=bad))
            if verb == "summarize":
                return place(bad.max() if step["nest"] != "ctx_kwarg" else own_int.max(filter=bad.is_null()))
            return place(bad)
        if rule == "foreign_ref_on":
            bad = self.refs[step["ref"]][rep]
            return t >> pdt.join(o, bad == o[o_name()], "inner")
        if rule == "unknown_on_name":
            return t >> pdt.join(o, "nope__", "inner")
        if rule == "reselect_hidden":
            return t >> pdt.select(self.refs[step["ref"]][rep])
        if rule == "rename_hidden_ref":
            return t >> pdt.rename({self.refs[step["ref"]][rep]: new})
        if rule == "rename_duplicate":
            names = t >> pdt.columns()
            a = step["any"]
            b = next(n for n in names if n != a)
            key = self.col(step, t, a, rep) if step["via"] != "own" else a
            if step["nest"] in ("case_branch", "ctx_kwarg"):
                # the target name is pinned by an identity entry of the same map
                return t >> pdt.rename({b: b, key: b})
            return t >> pdt.rename({key: b})
        if rule == "rename_two_onto_one":
            names = t >> pdt.columns()
            a = step["any"]
            b = next(n for n in names if n != a)
            ka = self.col(step, t, a, rep) if step["via"] != "own" else a
            return t >> pdt.rename({ka: new, b: new})
        if rule == "select_duplicate":
            return t >> pdt.select(c_any, t[step["any"]])
        if rule == "join_suffix_collision":
            on = o_name()
            if step["nest"] in ("case_branch", "case_cond", "ctx_kwarg"):
                # the colliding right column got its current name by a rename
                o = o >> pdt.rename({on: on + "_rn"})
                on = on + "_rn"
            left = t >> pdt.mutate(**{on + "_zz": t[step["any"]]})
            return left >> pdt.join(o, [], "inner", suffix="_zz")
        if rule in ("join_grouped", "join_same_origin", "join_cross_backend"):
            if rule == "join_cross_backend":
                o = self.tables[step["other"]].real["sqlite"]
                if rep != "polars":
                    raise Skip("cross backend is driven from the polars replica")
            return t >> pdt.join(o, [], "inner")
        if rule in ("union_grouped", "union_columns", "union_cross_backend"):
            if rule == "union_cross_backend":
                o = self.tables[step["other"]].real["sqlite"]
                if rep != "polars":
                    raise Skip("cross backend is driven from the polars replica")
            return t >> pdt.union(o)
        if rule == "slice_grouped":
            return t >> pdt.slice_head(2)
        if rule == "summarize_empty":
            return t >> pdt.summarize()
        if rule == "full_join_ineq":
            return t >> pdt.join(o, t[step["int"]] < o[o_name()], "full")
        if rule == "marker_in_mutate":
            bad = c_int.descending() if step["nest"] in ("top", "ctx_kwarg") else c_int.nulls_last()
            return place(bad)
        if rule == "marker_nested":
            bad = c_int.descending() + 1
            if verb == "mutate":
                return place(bad)
            return t >> pdt.arrange(bad)
        raise AssertionError(rule)
