"""Parent of the C19 check.  Two workloads under sampled configurations:
 (i)  operator x declared signature x back end  (sim/conf_sql.py)
 (ii) multi-verb histories of the history machine, profile `sql`: every produced table is
      compiled on sqlite / postgres / mssql after every step (sim/oracles.py: sql_oracle),
      the same seed also under a second interpreter environment (event logs must agree)."""

import collections
import json
import os
import time

from sim import runner as R

TIERS = {
    "quick": dict(groups=16, perms_per_group=3, budget_s=120, hist=dict(groups=16, waves=1, runs_per_group=45, budget_s=75, twin=8, min_budget_s=12)),
    "thorough": dict(groups=48, perms_per_group=10, budget_s=600, hist=dict(groups=16, waves=4, runs_per_group=150, budget_s=400, twin=16, min_budget_s=30)),
}
BACKENDS = ["polars", "sqlite", "postgres", "mssql"]


def first_use_order(verif_seed, g):
    import random

    order = list(BACKENDS)
    if g:
        random.Random(R.h("first_use", verif_seed, g)).shuffle(order)
    return order


def run(tier: str, verif_seed: int) -> int:
    from sim.findings import load_findings, match_finding

    t0 = time.time()
    T = TIERS[tier]
    findings = load_findings()
    harness_errors = []
    confs = []
    for w0 in range(0, T["groups"], 16):
        procs = []
        for g in range(w0, min(w0 + 16, T["groups"])):
            env = R.group_env(verif_seed, g)
            perms = ([0] if g == 0 else []) + [R.h("perm19", verif_seed, g, i) % (2**31) + 1 for i in range(T["perms_per_group"] - (1 if g == 0 else 0))]
            job = dict(kind="conf_sql", perms=perms, first_use=first_use_order(verif_seed, g), hard_timeout=T["budget_s"] + 120, samples=(g == 0))
            procs.append(R.spawn(job, env, f"C19i-{tier}-g{g}"))
        harness_errors += R.wait_all(procs, T["budget_s"] + 180)
        for pr in procs:
            for rec in R.read_jsonl(pr["out"]):
                if rec["type"] == "conf":
                    rec["env"] = pr["env"]
                    confs.append(rec)
    if not confs:
        print("HARNESS-ERROR no configuration completed", harness_errors[:2])
        return 2
    ref = next((c for c in confs if c["perm"] == 0 and c["env"]["PYTHONHASHSEED"] == "0"), confs[0])
    violations = []
    n_compared = 0
    for c in confs:
        if c is ref:
            continue
        n_compared += 1
        diff = [op for op in ref["digests"] if c["digests"].get(op) != ref["digests"][op]]
        if diff:
            violations.append(dict(oracle="O19.3", op=diff[0], what=f"outcome of `{diff[0]}` ({len(diff)} operators differ) under {c['env']} perm={c['perm']} first_use={c['first_use']} differs from the reference configuration", features=dict(kind="table_differs"), env=ref["env"], env_b=c["env"], perm_a=ref["perm"], perm_b=c["perm"], first_use_a=ref["first_use"], first_use_b=c["first_use"], ops=diff[:5]))
    seen = set()
    for c in confs:
        for v in c["violations"]:
            key = (v["oracle"], v["op"], json.dumps(v["features"], sort_keys=True))
            if key not in seen:
                seen.add(key)
                violations.append(dict(v, env=c["env"], perm_a=c["perm"], first_use_a=c["first_use"], ops=[v["op"]]))

    n_viol = 0
    known_hits = collections.Counter()
    lines = []
    for v in violations:
        rec = dict(property="C19", oracle=v["oracle"], op=v.get("op"), features=v["features"])
        k = match_finding(findings, rec)
        if k:
            known_hits[k] += 1
            continue
        n_viol += 1
        if n_viol <= 8:
            payload = dict(kind="conf_sql", property="C19", oracle=v["oracle"], seed=verif_seed, env=v["env"], env_b=v.get("env_b"), perm_a=v.get("perm_a"), perm_b=v.get("perm_b"), first_use_a=v.get("first_use_a"), first_use_b=v.get("first_use_b"), ops=v.get("ops"), expected=dict(what=v["what"]))
            path = R.write_replay("C19", f"{v['oracle']}-{v.get('op')}-{n_viol}", payload)
            lines.append(f"VIOLATION property=C19 replay={path}")
            lines.append(f"  oracle={v['oracle']} op={v.get('op')}: {v['what'][:300]}")
    for ln in lines:
        print(ln)
    wall_i = time.time() - t0
    part_i = dict(
        configurations=len(confs),
        cases_per_configuration=ref["n_cases"],
        outcome_kinds=ref["outcome_kinds"],
        configurations_compared_with_reference=n_compared,
        first_use_orders=len({tuple(c["first_use"]) for c in confs}),
        interpreter_environments=len({json.dumps(c["env"], sort_keys=True) for c in confs}),
        permutations=sum(1 for c in confs if c["perm"] != 0),
        violations=n_viol,
        known_findings_hit=dict(known_hits),
        samples=ref.get("samples", {}),
        wall_s=round(wall_i, 1),
    )
    print(f"C19 (i) [op x signature x back end/{tier}] configurations={len(confs)} cases/conf={ref['n_cases']} violations={n_viol} known={sum(known_hits.values())} wall={wall_i:.0f}s")

    # (ii) histories
    R.PROP_PROFILE["C19"] = "sql"
    R.HIST_TIERS[tier + "_c19"] = T["hist"]
    rc2 = R.run_hist_check("C19", tier, verif_seed, tier_key=tier + "_c19", extra_evidence=dict(workload_i=part_i), extra_violations=n_viol, extra_known=known_hits)
    if harness_errors:
        for e in harness_errors[:3]:
            print("HARNESS-ERROR", e[-500:])
        return 2
    if rc2 == 2:
        return 2
    return 1 if (n_viol or rc2 == 1) else 0


def replay(payload) -> int:
    envs = [(payload["env"], payload.get("perm_a") or 0, payload.get("first_use_a"))]
    if payload.get("env_b"):
        envs.append((payload["env_b"], payload.get("perm_b") or 0, payload.get("first_use_b")))
    recs = []
    for k, (env, perm, fu) in enumerate(envs):
        job = dict(kind="conf_sql", perms=[perm], only_ops=payload.get("ops"), dump_ops=payload.get("ops"), first_use=fu or BACKENDS, hard_timeout=300)
        pr = R.spawn(job, env, f"replay-C19-{os.getpid()}-{k}")
        errs = R.wait_all([pr], 300)
        rr = [r for r in R.read_jsonl(pr["out"]) if r["type"] == "conf"]
        if errs or not rr:
            print("HARNESS-ERROR replay worker failed", errs)
            return 2
        recs.append(rr[0])
    if payload["oracle"] == "O19.3":
        a, b = recs[0]["rows"], recs[1]["rows"]
        for key in a:
            if a[key] != b.get(key):
                print("VIOLATION property=C19 replay=<this file>")
                print(f"  reproduced: {key}: {a[key]} vs {b.get(key)}")
                return 1
        print("not reproduced: outcomes identical in both configurations")
        return 0
    hits = [v for v in recs[0]["violations"] if v["oracle"] == payload["oracle"]]
    if hits:
        print("VIOLATION property=C19 replay=<this file>")
        print(f"  reproduced: {hits[0]['what'][:300]}")
        return 1
    print("not reproduced on this tree")
    return 0
