"""python sim/debug.py <profile> <seed0> <n> : run n seeds in-process, print violations."""
import sys, json, collections
sys.path.insert(0, "/verif")
import sim.bootstrap
from sim.hist import run_cfg
from sim.profiles import make_cfg

prof, s0, n = sys.argv[1], int(sys.argv[2]), int(sys.argv[3])
tier = sys.argv[4] if len(sys.argv) > 4 else "quick"
agg = collections.Counter(); reach = collections.Counter(); sigs = collections.Counter()
first = {}
for s in range(s0, s0 + n):
    import os
    r = run_cfg(make_cfg(s, prof, tier, population=os.environ.get("POP","clean")))
    agg.update(r["stats"]); reach.update(r["reach"])
    for inc in r["incidents"]: print('INCIDENT', s, inc)
    if r["harness_error"]:
        print("HARNESS", s, r["harness_error"]); break
    v = r["violation"]
    if v:
        key = (v["oracle"], v["op"], json.dumps(v["features"], sort_keys=True)[:100])
        sigs[key] += 1
        first.setdefault(key, (s, v["what"][:300]))
print(dict(agg)); print(dict(reach))
for k, c in sigs.most_common():
    print(c, k, first[k])
