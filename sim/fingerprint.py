"""Structural fingerprints of library objects (frame condition, O10.1 / O14.3).

Only an explicit whitelist of *semantic* fields per class is covered.  Memo fields (`_dtype`,
`_ftype` of computed expressions, cached accessors) and `_fn_id` are excluded: filling a memo
is not a change of value.  Fingerprints are compared inside one process (before / after a
step) and never written to the event log, so they may contain UUID values and id()s.
"""

import sim.bootstrap  # noqa: F401
import polars as pl

from pydiverse.transform._internal.backend.table_impl import TableImpl
from pydiverse.transform._internal.pipe.pipeable import Pipeable
from pydiverse.transform._internal.pipe.table import Table
from pydiverse.transform._internal.tree import verbs as V
from pydiverse.transform._internal.tree.ast import AstNode
from pydiverse.transform._internal.tree.col_expr import (
    CaseExpr,
    Cast,
    Col,
    ColExpr,
    ColFn,
    ColName,
    LiteralCol,
    Order,
)


def fp_expr(e, memo) -> tuple:
    if isinstance(e, Order):
        return ("Order", fp_expr(e.order_by, memo), e.descending, e.nulls_last)
    if isinstance(e, Col):
        return ("Col", e.name, e._uuid.int, id(e._ast), repr(e._dtype), int(e._ftype) if e._ftype is not None else None)
    if isinstance(e, ColName):
        return ("ColName", e.name)
    if isinstance(e, LiteralCol):
        return ("Lit", repr(e.val), repr(e._dtype))
    if isinstance(e, ColFn):
        return (
            "Fn",
            e.op.name,
            tuple(fp_expr(a, memo) for a in e.args),
            tuple((k, tuple(fp_expr(x, memo) for x in v)) for k, v in e.context_kwargs.items()),
        )
    if isinstance(e, CaseExpr):
        return (
            "Case",
            tuple((fp_expr(c, memo), fp_expr(v, memo)) for c, v in e.cases),
            fp_expr(e.default_val, memo) if e.default_val is not None else None,
        )
    if isinstance(e, Cast):
        return ("Cast", fp_expr(e.val, memo), repr(e.target_type), e.strict)
    if isinstance(e, ColExpr):
        return (type(e).__name__, tuple(fp_expr(c, memo) for c in e.iter_children()))
    return ("py", repr(e))


def _val(x, memo):
    if isinstance(x, ColExpr | Order):
        return fp_expr(x, memo)
    if isinstance(x, AstNode):
        return fp_ast(x, memo)
    if isinstance(x, Table):
        return fp_table(x, memo)
    if isinstance(x, list | tuple):
        return tuple(_val(y, memo) for y in x)
    if isinstance(x, dict):
        return tuple((_val(k, memo), _val(v, memo)) for k, v in x.items())
    if hasattr(x, "int") and type(x).__name__ == "UUID":
        return x.int
    return repr(x)


def fp_ast(nd: AstNode, memo) -> tuple:
    key = id(nd)
    if key in memo:
        return memo[key]
    memo[key] = ("cycle", key)
    if isinstance(nd, TableImpl):
        extra = ()
        if hasattr(nd, "df"):
            extra = ("df", id(nd.df))
        if hasattr(nd, "table"):
            extra = ("tbl", type(nd.table).__name__, getattr(nd.table, "name", None), id(getattr(nd, "engine", None)))
        res = (
            type(nd).__name__,
            nd.name,
            tuple((n, fp_expr(c, memo)) for n, c in nd.cols.items()),
            extra,
        )
    else:
        fields = []
        for cls in type(nd).__mro__:
            for f in getattr(cls, "__slots__", ()):
                if f in ("name",):
                    continue
                if hasattr(nd, f):
                    fields.append((f, _val(getattr(nd, f), memo)))
        res = (type(nd).__name__, nd.name, tuple(fields))
    memo[key] = res
    return res


def fp_cache(c, memo) -> tuple:
    return (
        tuple((n, u.int) for n, u in c.name_to_uuid.items()),
        tuple((u.int, n) for u, n in c.uuid_to_name.items()),
        tuple(u.int for u in c.partition_by),
        tuple(sorted(id(d) for d in c.derived_from)),
        tuple((u.int, fp_expr(col, memo)) for u, col in c.cols.items()),
        c.limit,
        tuple(sorted(u.int for u in c.group_by)),
        c.is_filtered,
        c.backend.__name__,
    )


def fp_table(t: Table, memo) -> tuple:
    return ("Table", id(t._ast), fp_ast(t._ast, memo), id(t._cache), fp_cache(t._cache, memo))


def fp_pipeable(p: Pipeable, memo) -> tuple:
    out = []
    for c in p.calls:
        fn = getattr(c, "func", c)
        out.append(
            (
                getattr(fn, "__name__", repr(type(fn))),
                _val(list(getattr(c, "args", ())), memo),
                _val(dict(getattr(c, "keywords", {}) or {}), memo),
            )
        )
    return ("Pipeable", tuple(out))


def fp_any(x, memo) -> tuple:
    if isinstance(x, Table):
        return fp_table(x, memo)
    if isinstance(x, Pipeable):
        return fp_pipeable(x, memo)
    if isinstance(x, ColExpr | Order):
        return fp_expr(x, memo)
    if isinstance(x, pl.LazyFrame):
        return ("LazyFrame", id(x))
    if isinstance(x, pl.DataFrame):
        return ("DataFrame", tuple(x.columns), hash(tuple(x.rows())))
    return ("py", repr(x))
