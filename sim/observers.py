"""Observer steps: export to the targets, query builds, printing - and re-observation oracles
(O10.2 stability, O10.4 retry after an injected engine fault)."""

import contextlib
import io

import sim.bootstrap  # noqa: F401
import polars as pl

import pydiverse.transform as pdt
from sim.machine import Skip, canon_rows, sha


class ObserversMixin:
    def op_observe(self, step):
        pt = self.T(step["t"])
        kind = step["kind"]
        m = pt.m
        before = self.pool_fingerprint() if self.want_fp() else None
        outs = {}
        for rep in sorted(pt.real):
            t = pt.real[rep]
            faults = self.world.faults if rep == "sqlite" else None
            armed = False
            if faults and self.pending_fault and kind in ("export", "build_query", "repr", "dict"):
                fk, k = self.pending_fault
                self.pending_fault = None
                if fk == "exec":
                    faults.arm_exec(k)
                else:
                    faults.arm_connect()
                armed = True
                step["_fault"] = True
            if kind == "export":
                res = self.observe(pt, rep, [])
                if res[0] != "ok" and armed and res[1] in ("OperationalError", "DBAPIError", "InterfaceError"):
                    self.note("fault:engine_fired")
                    self.stats["engine_faults_fired"] += 1
                    faults.disarm()
                    res = self.observe(pt, rep, [])  # O10.4: the retry must succeed
                    if res[0] != "ok":
                        self.obs_violation("O10.4", f"export retried after an injected engine fault raised {res[1]}", step, rep)
                    self.note("engine_fault_retry_ok")
                if faults:
                    faults.disarm()
                if res[0] == "ok":
                    d = sha((res[1], canon_rows(res[2], m.order_fixed)))
                    outs[rep] = d
                    first = pt.first_digest.get(rep)
                    if first is not None and first != d:
                        self.obs_violation("O10.2", f"re-export of an unchanged table differs from its first export ({rep})", step, rep)
                    self.stats["reobserved"] += 1
                else:
                    outs[rep] = "exc:" + res[1]
            elif kind == "build_query":
                r1 = self.call(lambda t=t: t >> pdt.build_query())
                r2 = self.call(lambda t=t: t >> pdt.build_query())
                if faults:
                    faults.disarm()
                if r1[0] == "ok" and r2[0] == "ok":
                    if r1[1] != r2[1]:
                        self.obs_violation("O10.2", f"two build_query() calls on one table return different text ({rep})", step, rep)
                    key = (rep, "q")
                    if key in pt.first_digest and pt.first_digest[key] != sha(r1[1]):
                        self.obs_violation("O10.2", f"build_query() text changed since the first build ({rep})", step, rep)
                    pt.first_digest[key] = sha(r1[1])
                    outs[rep] = "q" if r1[1] is None else sha(r1[1])
                    self.stats["queries_built"] += 1
                else:
                    outs[rep] = "exc:" + (r1[1] if r1[0] != "ok" else r2[1])
            elif kind == "repr":
                r1 = self.call(lambda t=t: str(t))
                if faults:
                    faults.disarm()
                outs[rep] = "ok" if r1[0] == "ok" else "exc:" + r1[1]
                if r1[0] != "ok":
                    self.obs_violation("O10.repr", f"str(table) raised {r1[1]} ({rep})", step, rep)
            elif kind == "lazy":
                if rep != "polars":
                    continue
                r1 = self.call(lambda t=t: self.export(t, lazy=True))
                if r1[0] == "ok" and isinstance(r1[1], pl.LazyFrame):
                    self.lazies[f"z{step['i']}"] = dict(lf=r1[1], t=pt.id, step=step["i"])
                    outs[rep] = "lazy"
                else:
                    outs[rep] = "exc:" + str(r1[1])[:30]
            elif kind == "dict":
                r1 = self.call(lambda t=t: t >> pdt.export(pdt.DictOfLists()))
                if faults:
                    faults.disarm()
                if r1[0] == "ok":
                    cols = list(r1[1].keys())
                    rows = list(zip(*r1[1].values(), strict=True)) if cols else []
                    d = sha((cols, canon_rows(rows, m.order_fixed)))
                    first = pt.first_digest.get(rep)
                    if first is not None and first != d:
                        self.obs_violation("O10.2", f"DictOfLists export differs from the first Polars export ({rep})", step, rep)
                    outs[rep] = d
                else:
                    outs[rep] = "exc:" + r1[1]
            elif kind == "columns":
                r1 = self.call(lambda t=t: (t >> pdt.columns(), len(t), [c.name for c in t]))
                outs[rep] = sha(r1[1]) if r1[0] == "ok" else "exc:" + r1[1]
            elif kind == "ast_repr":
                buf = io.StringIO()
                with contextlib.redirect_stdout(buf):
                    r1 = self.call(lambda t=t: t >> pdt.ast_repr())
                outs[rep] = "ok" if r1[0] == "ok" else "exc:" + r1[1]
            elif kind == "expr_export":
                x = self.exprs.get(step["x"])
                if x is None:
                    raise Skip(step["x"])
                if rep in x:
                    r1 = self.call(lambda e=x[rep]: e.export(pdt.Polars()))
                    r2 = self.call(lambda e=x[rep]: e.export(pdt.Polars()))
                    if faults:
                        faults.disarm()
                    if r1[0] == "ok" and r2[0] == "ok":
                        if r1[1].to_list() != r2[1].to_list() and sorted(map(str, r1[1].to_list())) != sorted(map(str, r2[1].to_list())):
                            self.obs_violation("O10.2", f"two exports of one expression object differ ({rep})", step, rep)
                        outs[rep] = "ok"
                        self.note("expr_exported")
                    else:
                        outs[rep] = "exc:" + (r1[1] if r1[0] != "ok" else r2[1])
            elif kind == "show_query":
                buf = io.StringIO()
                with contextlib.redirect_stdout(buf):
                    r1 = self.call(lambda t=t: t >> pdt.show_query())
                if faults:
                    faults.disarm()
                outs[rep] = "ok" if r1[0] == "ok" else "exc:" + r1[1]
            elif kind == "expr_repr":
                x = self.exprs.get(step["x"])
                if x is None:
                    raise Skip(step["x"])
                if rep in x:
                    r1 = self.call(lambda e=x[rep]: repr(e))
                    outs[rep] = "ok" if r1[0] == "ok" else "exc:" + r1[1]
                    self.note("expr_printed")
            else:
                raise AssertionError(kind)
        if before is not None:
            self.check_frame_condition(before, step)
        self.stats["observations"] += 1
        self.emit(step, "obs", outs.get("polars", outs.get("sqlite")))

    def obs_violation(self, orc, what, step, rep):
        if "O10" in self.fam:
            self.violate("C10", orc, what, kind=step["kind"], rep=rep)
        self.stats["incidental_obs"] += 1

    def op_collect_lazy(self, step):
        z = self.lazies.get(step["z"])
        if z is None:
            raise Skip(step["z"])
        pt = self.tables.get(z["t"])
        if pt is None:
            raise Skip(z["t"])
        res = self.call(lambda: z["lf"].collect())
        late = step["i"] - z["step"]
        if late >= 3:
            self.note("lazy_collected_3_steps_late")
        if res[0] != "ok":
            self.obs_violation("O10.4", f"deferred LazyFrame failed to collect {late} steps later: {res[1]}", dict(kind="collect_lazy"), "polars")
            self.emit(step, "exc:" + res[1])
            return
        df = res[1]
        d = sha((list(df.columns), canon_rows(df.rows(), pt.m.order_fixed)))
        first = pt.first_digest.get("polars")
        if first is not None and first != d:
            self.obs_violation("O10.4", f"LazyFrame collected {late} steps later differs from the eager export", dict(kind="collect_lazy"), "polars")
        del self.lazies[step["z"]]
        self.emit(step, "ok", d)
