"""ddmin over recipe steps (recipes are closed under deletion: a step whose inputs no longer
exist is skipped), then environment simplification.  A candidate is kept only if the same
(property, oracle) still fails."""

import time


def minimise(run, cfg: dict, steps: list, target: tuple, budget_s: float = 25.0):
    """run(cfg, steps) -> result dict (sim.hist.run_cfg). Returns (cfg, steps, n_tries)."""
    t_end = time.time() + budget_s
    tries = 0

    def fails(c, sub):
        nonlocal tries
        tries += 1
        r = run(c, sub)
        v = r["violation"]
        return bool(v) and not r["harness_error"] and (v["property"], v["oracle"]) == target

    # cut everything after the violating step
    steps = list(steps)
    if not fails(cfg, steps):
        return cfg, steps, tries, False
    n = 2
    while len(steps) >= 2 and time.time() < t_end:
        chunk = max(1, len(steps) // n)
        reduced = False
        for start in range(0, len(steps), chunk):
            if time.time() >= t_end:
                break
            cand = steps[:start] + steps[start + chunk :]
            if cand and fails(cfg, cand):
                steps = cand
                n = max(n - 1, 2)
                reduced = True
                break
        if not reduced:
            if chunk == 1:
                break
            n = min(len(steps), n * 2)
    # environment simplification (in-process components only)
    for key, val in (("uuid_regime", "counter"), ("reverse_unordered", False), ("sessions", 1)):
        if cfg.get(key) != val and time.time() < t_end:
            c2 = dict(cfg)
            c2[key] = val
            if fails(c2, steps):
                cfg = c2
    if len(cfg.get("replicas", [])) > 1:
        for rep in cfg["replicas"]:
            if time.time() >= t_end:
                break
            c2 = dict(cfg)
            c2["replicas"] = [rep]
            if fails(c2, steps):
                cfg = c2
                break
    # shrink row counts
    for t in ("A", "B", "D", "A_1"):
        for n_rows in (0, 1, 2, 3):
            if time.time() >= t_end:
                break
            if len(cfg["rows"][t]) > n_rows:
                c2 = dict(cfg)
                c2["rows"] = dict(cfg["rows"])
                c2["rows"][t] = list(range(n_rows))
                if fails(c2, steps):
                    cfg = c2
                    break
    return cfg, steps, tries, True
