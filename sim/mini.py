"""python sim/mini.py <profile> <seed> : run, minimise, print the minimised recipe"""
import sys, json
sys.path.insert(0, "/verif")
import sim.bootstrap
from sim.hist import run_cfg
from sim.profiles import make_cfg
from sim.minimise import minimise
prof, s = sys.argv[1], int(sys.argv[2])
cfg = make_cfg(s, prof, sys.argv[3] if len(sys.argv) > 3 else "quick")
r = run_cfg(cfg)
v = r["violation"]
if not v: print("no violation"); sys.exit()
c2, s2, tries, ok = minimise(run_cfg, r["cfg"], r["steps"], (v["property"], v["oracle"]), 40)
print("rows", {k: len(x) for k, x in c2["rows"].items()}, "replicas", c2["replicas"], "regime", c2["uuid_regime"], "tries", tries)
for st in s2: print(json.dumps(st))
r2 = run_cfg(c2, s2)
print(r2["violation"]["what"][:600])
