"""python tools/keep_seeded.py <Cxx> <n> <caught:yes|no> "<oracles/notes>" : copy a confirmed sub-agent change into seeded/"""
import json, os, shutil, sys
prop, n, caught, notes = sys.argv[1], sys.argv[2], sys.argv[3], sys.argv[4]
src = os.environ.get("SEEDED_SRC", f"/tmp/wt_{prop}/out{n}")
dst = os.environ.get("SEEDED_DST", f"/verif/seeded/{prop}-{n}")
os.makedirs(dst, exist_ok=True)
for f in ("patch.diff", "demo.py", "notes.txt"):
    shutil.copy(os.path.join(src, f), os.path.join(dst, f))
meta = dict(
    id=os.path.basename(dst), property=prop,
    source="fresh sub-agent given only the property text and a scratch worktree of /repo",
    needs_to_manifest=open(os.path.join(src, "notes.txt")).read().strip(),
    confirmed=dict(
        demo_on_clean_tree="exit 0 (OK)", demo_with_patch="exit 1 (FAIL)",
        pinned_suite_with_patch="2 failed, 64 passed, 2316 skipped, 2 xfailed, 251 errors (same as clean tree)",
        how="tools/try_seeded.sh: worktree at /repo HEAD, demo run both ways, pinned pytest command with PYTHONPATH=<worktree>/src, then ./check with PDT_VERIF_REPO_SRC=<worktree>/src (and/or git -C /repo apply; check; git -C /repo checkout -- .)",
    ),
    check=f"./check {prop} --tier quick", caught=(caught == "yes"), caught_by=notes,
)
json.dump(meta, open(os.path.join(dst, "meta.json"), "w"), indent=1)
print("kept", dst)
