"""python tools/mk_seeded_table.py : rewrite the table of DESIGN.md section 14.2 from seeded/*/meta.json"""
import glob
import json
import re

p = "/verif/DESIGN.md"
s = open(p).read()


def key(m):
    parts = m["id"].split("-")
    return (1 if len(parts) == 2 else int(parts[1][1:]), m["id"])


metas = sorted((json.load(open(f)) for f in glob.glob("/verif/seeded/*/meta.json")), key=key)
rows = [f"| {m['id']} | {m['check'].split()[1]} | {'yes' if m['caught'] else 'NO'} | {m['caught_by']} |" for m in metas]
missed = sum("missed at first" in m["caught_by"] for m in metas)
head = "| id | check | caught | by which oracle / what had to be extended |\n|---|---|---|---|\n"
i = s.index(head)
j = s.index("\n\n", i + len(head))
s = s[:i] + head + "\n".join(rows) + s[j:]
s = re.sub(r"SEEDED-COUNTS:.*?:END", f"SEEDED-COUNTS: {len(metas)} changes, {missed} missed at first :END", s)
open(p, "w").write(s)
print(len(metas), missed)
