"""Regenerates /verif/MANIFEST.json from the table below (kept valid at all times)."""
import json, os
ROOT = os.path.dirname(os.path.dirname(os.path.abspath(__file__)))

NA = {
 "C01":"pure function of (pipeline, data): no schedule, clock, fault or history-dependent state in it; deciding it needs differential testing over programs x inputs, not simulation (DESIGN.md section 5); SQLite-vs-Polars agreement is exercised as collateral by the C08 machine but not claimed",
 "C02":"pure per-verb row semantics against an independent interpreter; no schedule/fault/interleaving dimension",
 "C03":"pure per-operator, per-value truth tables; no schedule/fault/interleaving dimension",
 "C04":"pure aggregate semantics over data shapes; no schedule/fault/interleaving dimension",
 "C05":"pure ordering/window semantics; no schedule/fault/interleaving dimension",
 "C07":"pure union semantics over (programs, inputs); no schedule/fault/interleaving dimension (union is a step kind of the history machine, unclaimed)",
 "C12":"pure typing rules versus exported schema; no schedule/fault/interleaving dimension",
 "C15":"pure metamorphic relations between programs; no schedule/fault/interleaving dimension",
 "C17":"pure conversion table per value; no schedule/fault/interleaving dimension",
 "C18":"pure escaping per character per operator; no schedule/fault/interleaving dimension",
 "C20":"pure agreement of export targets over (programs, inputs); deferred lazy collection is scheduled under C10 but not claimed",
}
PENDING = {}  # property -> reason while its check is not built yet

CHECKS = {}  # filled by tools/checks_table.py
exec(open(os.path.join(ROOT, "tools", "checks_table.py")).read())

m = {"version":1,
 "setup_cmd":"/venv/bin/python -c \"import polars, sqlalchemy, pydiverse.common, sys; sys.path.insert(0,'/repo/src'); import pydiverse.transform\"",
 "hooks":{"guard":"PDT_VERIF","enable":"no hook in /repo: every seam is reached from outside (uuid.uuid1 module attribute, PYTHONHASHSEED/POLARS_MAX_THREADS, Dtype.__hash__ salt installed before import, SQLAlchemy engine events, sys.settrace, in-place permutation of registries); PDT_VERIF is reserved and unused",
          "baseline_off_cmd":"cd /repo && /venv/bin/python -m pytest -q -p no:cacheprovider --timeout=900 --continue-on-collection-errors","source_commits":[],"add_only":True},
 "engines":[{"name":"hist","path":"sim/","serves_properties":sorted(k for k,v in CHECKS.items() if v["engine"]=="hist"),"kind_free_text":"deterministic simulation: seeded history machine over shared tables/expressions with fault injection, reference model, replicas polars+sqlite"},
            {"name":"conf","path":"sim/","serves_properties":sorted(k for k,v in CHECKS.items() if v["engine"]=="conf"),"kind_free_text":"deterministic simulation over configurations: hash seeds, dtype-hash salt, declaration-order permutation, dialect first-use order"}],
 "checks":[],
 "notes":"See DESIGN.md. Checks exit 0/1/2 (2 = HARNESS-ERROR, never a pass).",
 "not_applicable":[{"property_id":k,"reason":v} for k,v in NA.items()] + [{"property_id":k,"reason":v} for k,v in PENDING.items() if k not in CHECKS],
}
for pid in sorted(CHECKS):
    c = CHECKS[pid]
    m["checks"].append({
        "property_id": pid,
        "quick_cmd": f"./check {pid} --tier quick",
        "thorough_cmd": f"./check {pid} --tier thorough",
        "evidence_file": f"evidence/{pid}.json",
        "replay_cmd_template": "./check replay {path}",
        "engine": c["engine"],
        "level_claimed": {"category":"exploration","text":c["text"],"design_ref":c["design_ref"]},
        "level_note": c["note"],
        "technique": c["technique"],
    })
json.dump(m, open(os.path.join(ROOT,"MANIFEST.json"),"w"), indent=1)
print("checks:", [c["property_id"] for c in m["checks"]], "n/a:", len(m["not_applicable"]))
