#!/bin/sh
# usage: tools/reverify_seeded.sh [id ...]   re-confirms seeded changes on /repo HEAD: patch applies, demo OK on the clean
# tree and FAIL with the patch, and the quick check of the property reports a violation on the patched tree.
# Works in a scratch worktree of /repo (removed at the end); never touches /repo's working tree.
root=$(cd "$(dirname "$0")/.." && pwd)
cd "$root"
ids=${*:-$(ls seeded)}
wt=/tmp/wsv_$$
git -C /repo worktree add --detach $wt HEAD -q || exit 3
for id in $ids; do
  d=$root/seeded/$id
  prop=$(echo $id | cut -d- -f1)
  (cd $wt && git checkout -q -- . )
  PYTHONPATH=$wt/src /venv/bin/python $d/demo.py >/dev/null 2>&1; rc_clean=$?
  if ! git -C $wt apply $d/patch.diff 2>/dev/null; then echo "$id PATCH-DOES-NOT-APPLY"; continue; fi
  PYTHONPATH=$wt/src /venv/bin/python $d/demo.py >/dev/null 2>&1; rc_patched=$?
  if [ "$rc_patched" -eq 0 ]; then echo "$id demo_clean=$rc_clean demo_patched=0 OBSOLETE (the patch no longer breaks its demo on this tree)"; continue; fi
  out=$(PDT_VERIF_REPO_SRC=$wt/src ./check $prop --tier quick 2>&1 | grep -v WARNING)
  nv=$(echo "$out" | grep -c "^VIOLATION")
  first=$(echo "$out" | grep -m1 "oracle=" | cut -c1-150)
  verdict=CAUGHT; [ "$nv" -eq 0 ] && verdict=MISSED
  echo "$id demo_clean=$rc_clean demo_patched=$rc_patched violations=$nv $verdict $first"
done
git -C /repo worktree remove --force $wt; git -C /repo worktree prune
echo REVERIFY-DONE
