#!/bin/sh
# usage: tools/run_checks.sh <tier> <seed> <Cxx>...   runs the named checks one after the other, prints their summary lines
tier=$1; seed=$2; shift 2
for c in "$@"; do
  echo "== seed=$seed $c ($tier)"
  VERIF_SEED=$seed ./check $c --tier $tier 2>&1 | grep -v WARNING | grep -E "VIOLATION|oracle=|HARNESS|runs=|configurations=" | cut -c1-420
  echo "rc=$?"
done
