ALL_CLAIMED = ["C06","C08","C09","C10","C11","C13","C14","C16","C19"]
_T = "deterministic simulation with fault injection: seeded search over histories, schedules and fault sequences against a reference model"
CHECKS = {
 "C11": dict(engine="hist", design_ref="DESIGN.md section 5 (C11)", technique=_T,
   text="Seeded search over verb histories (reordering select, overwriting mutate/summarize, rename swaps, suffixing joins, unions, alias, collect, recomputation as a skip-the-fast-path fault) on the polars and sqlite replicas; after every step columns()/iteration/len/in/dir/t[name] agree with each other, with the exported frame (or, if export fails on SQL, with the compiled SELECT list), with Table(ast) recomputed from the whole pipeline and with the printed header. Sampling, not proof; the same seed is also run under a second interpreter environment (hash seed, dtype-hash salt, thread count) and must give the same event log.",
   note="Trusts the reference model's documented name rules (set of names only; order is judged by the property itself: metadata vs frame). Grouped tables are not judged by the print oracle. Values stay in the defined-result domain (DESIGN.md section 4)."),
}
for k in ALL_CLAIMED:
    if k not in CHECKS:
        PENDING[k] = "check under construction (planned in DESIGN.md section 5); moves to `checks` when sound"
