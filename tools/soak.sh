#!/bin/sh
# usage: tools/soak.sh <tier> <seed>...   runs every check for every VERIF_SEED, prints a summary line per check
tier=$1; shift
for seed in "$@"; do
  for c in C06 C08 C09 C10 C11 C13 C14 C16 C19; do
    out=$(VERIF_SEED=$seed ./check $c --tier $tier 2>&1 | grep -v WARNING | grep -v '^KNOWN')
    rc=$?
    echo "== seed=$seed $c"
    echo "$out" | grep -E "VIOLATION|oracle=|HARNESS|runs=|configurations=" | cut -c1-420
  done
done
