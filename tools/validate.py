"""python3-vt tools/validate.py : MANIFEST.json and evidence/*.json against the task's JSON schemas"""
import glob
import json
import sys

import jsonschema

ok = True
m = json.load(open("/verif/MANIFEST.json"))
try:
    jsonschema.validate(m, json.load(open("/root/.vp/MANIFEST.schema.json")))
    print("MANIFEST ok:", len(m.get("checks", m.get("properties", []))), "checks")
except Exception as e:  # noqa: BLE001
    ok = False
    print("MANIFEST INVALID:", str(e)[:300])
sch = json.load(open("/root/.vp/EVIDENCE.schema.json"))
for f in sorted(glob.glob("/verif/evidence/*.json")):
    e = json.load(open(f))
    try:
        jsonschema.validate(e, sch)
        print(f, "ok  violations =", e.get("violations"), " evaluations =", e.get("coverage", {}).get("evaluations"))
    except Exception as ex:  # noqa: BLE001
        ok = False
        print(f, "INVALID:", str(ex)[:300])
sys.exit(0 if ok else 1)
