#!/bin/sh
# usage: tools/try_seeded.sh <Cxx> <worktree> <outdir> [check-to-run ...]
# confirms a sub-agent's change (demo OK on clean tree, FAIL with patch, pinned suite unchanged) and runs the check(s) on it
root=$(cd "$(dirname "$0")/.." && pwd)
prop=$1; wt=$2; out=$3; shift 3
checks=${*:-$prop}
cd $wt && git checkout -q -- src && git checkout -q --detach main
echo "--- demo on clean tree"; PYTHONPATH=$wt/src /venv/bin/python $out/demo.py 2>&1 | grep -v WARNING | tail -2; echo "rc=$?"
git apply $out/patch.diff || { echo "PATCH DOES NOT APPLY"; exit 3; }
echo "--- demo with patch"; PYTHONPATH=$wt/src /venv/bin/python $out/demo.py > /tmp/demo_out.txt 2>&1; echo "rc=$?"; grep -v WARNING /tmp/demo_out.txt | tail -3
echo "--- pinned suite with patch"; PYTHONPATH=$wt/src /venv/bin/python -m pytest -q -p no:cacheprovider --timeout=900 --continue-on-collection-errors 2>&1 | tail -1
cd "$root"
for c in $checks; do
  echo "--- check $c on the patched tree"
  PDT_VERIF_REPO_SRC=$wt/src ./check $c --tier quick 2>&1 | grep -v WARNING | grep -v '^KNOWN' | grep -E "VIOLATION|oracle=|runs=|configurations=|HARNESS" | head -6 | cut -c1-330
done
cd $wt && git checkout -q -- src && git checkout -q --detach main
